"""Finding 20 (C03): a component that finishes early.  Run with PYTHONPATH=<finam tree>/src.
Before fix f11d473: run() raises IndexError (the CsvReader is updated again after its last row).
After the fix: run() returns, the reader stays at its last row, the others reach the end time."""
import os
import sys
import tempfile
from datetime import datetime, timedelta

import finam as fm

with tempfile.TemporaryDirectory() as d:
    os.chdir(d)
    with open("in.csv", "w") as f:
        f.write("T;X\n2000-01-01;1\n2000-01-02;2\n2000-01-03;3\n")
    reader = fm.components.CsvReader("in.csv", time_column="T", outputs={"X": "m"}, date_format=None)
    gen = fm.components.CallbackGenerator({"Out": (lambda t: t.day, fm.Info(None, grid=fm.NoGrid()))},
                                          start=datetime(2000, 1, 1), step=timedelta(days=1))
    c1 = fm.components.DebugConsumer({"In": fm.Info(None, grid=fm.NoGrid())}, start=datetime(2000, 1, 1),
                                     step=timedelta(days=1))
    c2 = fm.components.DebugPushConsumer({"In": fm.Info(None, grid=fm.NoGrid(), units=None)})
    comp = fm.Composition([reader, gen, c1, c2], print_log=False, slot_memory_location=os.path.join(d, "mem"))
    gen["Out"] >> c1["In"]
    reader["X"] >> c2["In"]
    try:
        comp.run(end_time=datetime(2000, 1, 6))
    except Exception as e:  # pylint: disable=broad-except
        print("run() raised", type(e).__name__, e)
        sys.exit(1)
    print("run() returned; reader at", reader.time, "generator at", gen.time)
    sys.exit(0 if reader.time == datetime(2000, 1, 3) and gen.time >= datetime(2000, 1, 6) else 1)
