import finam as fm, numpy as np
from datetime import datetime
t0=datetime(2000,1,1)
src_grid = fm.UniformGrid((4,3), axes_increase=[False, True])     # x stored decreasing
in_grid  = fm.UniformGrid((4,3))                                   # same geometry, default layout
dst_grid = fm.UniformGrid((4,3))
out=fm.Output(name="Out"); inp=fm.Input(name="In")
ada=fm.adapters.RegridNearest(in_grid=in_grid)
out >> ada >> inp
inp.ping()
out.push_info(fm.Info(time=t0, grid=src_grid, units="m"))
inp.exchange_info(fm.Info(time=t0, grid=dst_grid, units="m"))
field = np.arange(6.0).reshape(src_grid.data_shape)
out.push_data(field, t0)
got = fm.data.get_magnitude(inp.pull_data(t0))[0]
want = dst_grid.from_canonical(src_grid.to_canonical(field))
print("delivered", got.tolist()); print("expected ", want.tolist()); print("same:", np.array_equal(got, want))
