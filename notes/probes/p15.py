import itertools, warnings, logging, datetime as dt
warnings.filterwarnings("ignore")
import numpy as np, finam as fm
T0=dt.datetime(2000,1,1); D=lambda k: T0+dt.timedelta(days=k)
def setup(adapters, start=0):
    out = fm.Output(name="Out", info=fm.Info(D(start), grid=fm.NoGrid(), units="m"))
    inp = fm.Input(name="In", info=fm.Info(D(start), grid=fm.NoGrid(), units=None))
    x=out
    for a in adapters: x = x >> a
    x >> inp
    inp.ping(); inp.exchange_info()
    return out, inp
reqlog=[]
orig=fm.Output.get_data
def gd(self,time,target):
    reqlog.append((time-T0).days); return orig(self,time,target)
fm.Output.get_data=gd
bad=[];n=0
# source publishes every day 0..12 ahead of requests (all pushed first => DelayToPush sees newest=12); test also lazy
for chain in [("F",2),("F",0),("F",5)], :
    pass
def run(chain_spec, reqs, lazy):
    ads=[]
    for k in chain_spec:
        if k[0]=="F": ads.append(fm.adapters.DelayFixed(dt.timedelta(days=k[1])))
        elif k[0]=="P": ads.append(fm.adapters.DelayToPull(steps=k[1], additional_delay=dt.timedelta(days=k[2])))
        elif k[0]=="U": ads.append(fm.adapters.DelayToPush())
        elif k[0]=="S": ads.append(fm.adapters.Scale(1.0))
    out,inp=setup(ads)
    pushed=-1
    res=[]
    for r in reqs:
        top = r if lazy else 14
        while pushed<top:
            pushed+=1; out.push_data(float(pushed), D(pushed))
        reqlog.clear()
        v=float(inp.pull_data(D(r)).magnitude.flat[0])
        res.append((r, reqlog[-1] if reqlog else None, v))
    return res
def model(chain_spec, reqs, lazy):
    # adapters listed source->input; request flows input->source i.e. reversed
    state=[{"pulls":[]} for _ in chain_spec]
    res=[]
    for r in reqs:
        newest = r if lazy else 14
        t=r
        for i in reversed(range(len(chain_spec))):
            k=chain_spec[i]
            if k[0]=="F": t2=max(t-k[1],0)
            elif k[0]=="P":
                st=state[i]
                if not st["pulls"]: st["pulls"].append(0)
                t2=max(st["pulls"][0]-k[2],0)
                st["pulls"].append(t)
                while len(st["pulls"])>k[1]: st["pulls"].pop(0)
            elif k[0]=="U": t2=min(t,newest)
            else: t2=t
            t=t2
        res.append((r,t,float(t)))
    return res
specs=[[("F",2)],[("F",0)],[("F",5)],[("F",2),("F",3)],[("F",2),("S",),("F",1)],[("P",1,0)],[("P",2,0)],[("P",3,1)],[("P",1,2)],[("U",)],[("F",2),("P",1,0)],[("P",1,0),("F",2)],[("P",2,1),("P",1,0)],[("U",),("F",2)],[("F",2),("U",)],[("F",1),("F",1),("F",1)]]
reqseqs=[(0,1,2,3,4),(0,3,6,9,12),(0,2,2,5,11),(1,4,6),(0,5,7,8)]
for sp in specs:
    for rq in reqseqs:
        for lazy in (False,True):
            try:
                got=run(sp,rq,lazy); exp=model(sp,rq,lazy); n+=1
                if got!=exp: bad.append((sp,rq,lazy,got,exp))
            except Exception as e: bad.append((sp,rq,lazy,"ERR",type(e).__name__,str(e)[:100]))
print("C13",n,"bad",len(bad))
for b in bad[:10]: print(b)
