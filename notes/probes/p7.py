import datetime as dt, logging
import numpy as np
import finam as fm
T0=dt.datetime(2000,1,1)
class Pull(fm.Component):
    def _initialize(self):
        self.inputs.add(name="In0", time=T0, grid=fm.NoGrid(), units="m")
        self.outputs.add(fm.CallbackOutput(callback=self._get, name="Out", time=T0, grid=fm.NoGrid(), units="m"))
        self.create_connector()
    def _connect(self, start_time): self.try_connect(start_time)
    def _validate(self): pass
    def _update(self): pass
    def _finalize(self): pass
    def _get(self, _c, t):
        try: return self.inputs["In0"].pull_data(t).magnitude.copy()
        except fm.FinamNoDataError: return None
# true cycle through pull comp: A -> W -> A
a = fm.components.CallbackComponent(inputs={"In": fm.Info(None, grid=fm.NoGrid(), units="m")}, outputs={"Out": fm.Info(None, grid=fm.NoGrid(), units="m")}, callback=lambda i,t: {"Out": 1.0}, start=T0, step=dt.timedelta(days=1), initial_pull=False).with_name("A")
w = Pull().with_name("W")
comp = fm.Composition([a,w], print_log=False, log_level=logging.CRITICAL)
a.outputs["Out"] >> w.inputs["In0"]
w.outputs["Out"] >> a.inputs["In"]
try:
    comp.run(end_time=T0+dt.timedelta(days=6)); print("OK")
except Exception as e: print("ERR", type(e).__name__, str(e)[:300])
