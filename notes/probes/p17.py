# C08/C09 brute force: output with k inputs; random interleavings; compare with unlimited reference
import itertools, warnings, random, datetime as dt
warnings.filterwarnings("ignore")
import numpy as np, finam as fm
T0=dt.datetime(2000,1,1); D=lambda k: T0+dt.timedelta(hours=12*k)
def mk(nin, via_pass=False):
    out=fm.Output(name="Out", info=fm.Info(T0, grid=fm.NoGrid(), units="m"))
    ins=[]
    for i in range(nin):
        inp=fm.Input(name=f"In{i}", info=fm.Info(T0, grid=fm.NoGrid(), units="km"))
        if via_pass and i%2==0: out >> fm.adapters.Scale(1.0) >> inp
        else: out >> inp
        ins.append(inp)
    for i in ins: i.ping()
    for i in ins: i.exchange_info()
    return out,ins
def ref(full,t):
    if t<full[0] or t>full[-1]: return "TE"
    if t in full: return {t}
    for a,b in zip(full,full[1:]):
        if a<t<b:
            if 2*t<a+b: return {a}
            if 2*t>a+b: return {b}
            return {a,b}
rnd=random.Random(1); bad=[]; n=0; maxlen=0
for trial in range(3000):
    nin=rnd.choice([1,2,3]); out,ins=mk(nin, via_pass=rnd.random()<0.5)
    full=[]; last=[None]*nin; t=0
    for step in range(rnd.randint(3,25)):
        if not full or rnd.random()<0.4:
            t=(full[-1] if full else -1)+rnd.choice([1,2,3,4]); full.append(t); out.push_data(float(t),D(t))
        else:
            i=rnd.randrange(nin)
            lo=last[i] if last[i] is not None else full[0]
            r=rnd.randint(lo, full[-1]+1)  # may exceed newest by 1 -> TimeError expected
            exp=ref(full,r)
            try:
                v=ins[i].pull_data(D(r)); got=round(float(v.magnitude.flat[0])*1000); 
                ok = exp!="TE" and got in exp
                last[i]=r
            except fm.FinamTimeError:
                ok = exp=="TE"
            n+=1
            if not ok: bad.append((full[:],i,r,exp)); break
            # bound
            if all(l is not None for l in last):
                tmin=min(last); bound=1+sum(1 for p in full if p>tmin)
                if len(out.data)>bound: bad.append(("BOUND",full[:],last[:],len(out.data),bound)); break
print("C08/09 pulls",n,"bad",len(bad)); print(bad[:5])
