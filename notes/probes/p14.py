import itertools, warnings, logging, datetime as dt
from fractions import Fraction as F
warnings.filterwarnings("ignore")
import numpy as np, finam as fm
exec(open("p13.py").read().split("bad=[]")[0])
bad=[];n=0
gapsets=list(itertools.product((1,2,3),repeat=3))
valsets=[(0,4,1,7),(5,5,2,9)]
for gaps in gapsets:
  times=[0]
  for g in gaps: times.append(times[-1]+g)
  for vals in valsets:
    full=list(zip(times,[F(v) for v in vals]))
    reqs_all=[r for L in (2,3,4) for r in itertools.combinations(range(times[-1]+1),L)]
    for kind,mk,s,mode in [("avg-lin",lambda: fm.adapters.AvgOverTime(),None,"avg"),("avg-s0",lambda: fm.adapters.AvgOverTime(step=0.0),F(0),"avg"),("avg-s.5",lambda: fm.adapters.AvgOverTime(step=0.5),F(1,2),"avg"),("avg-s1",lambda: fm.adapters.AvgOverTime(step=1.0),F(1),"avg"),
                           ("sum-lin-pt",lambda: fm.adapters.SumOverTime(step=None,per_time=True),None,"sumpt"),("sum-s0-pt",lambda: fm.adapters.SumOverTime(step=0.0,per_time=True),F(0),"sumpt"),("sum-s.25-pt",lambda: fm.adapters.SumOverTime(step=0.25,per_time=True),F(1,4),"sumpt"),
                           ("sum-s0-abs",lambda: fm.adapters.SumOverTime(step=0.0,per_time=False),F(0),"sumabs"),("sum-lin-abs",lambda: fm.adapters.SumOverTime(step=None,per_time=False),None,"sumabs")]:
      for reqs in reqs_all[::2]:
        ad=mk(); out,inp=setup(ad,times,vals,units="m/s" if mode=="sumpt" else "m")
        pushed=0
        def push_until(t):
            global pushed
            while pushed<len(times) and (pushed==0 or times[pushed-1]<t):
                out.push_data(float(vals[pushed]), D(times[pushed])); pushed+=1
        try:
            prev=None
            for r in reqs:
                push_until(r)
                q=inp.pull_data(D(r)); got=float(q.magnitude.flat[0])
                if prev is None:
                    prev=r; 
                    # first pull: prev_time = first push time (0)
                    a=0
                else: a=prev
                if r==a: prev=r; continue
                I=integ(full,a,r,s)
                if mode=="avg": exp=I/(r-a)
                elif mode=="sumpt": exp=I*86400
                else:
                    # absolute: weighted sum: each interval contributes fraction*value without time scale
                    tot=F(0)
                    for (t0,v0),(t1,v1) in zip(full,full[1:]):
                        lo,hi=max(a,t0),min(r,t1)
                        if hi<=lo: continue
                        tot+=integ([(t0,v0),(t1,v1)],lo,hi,s)/(t1-t0)
                    exp=tot
                n+=1
                if abs(got-float(exp))>1e-6*max(1,abs(float(exp))): bad.append((kind,times,vals,reqs,r,got,float(exp),str(q.units)))
                prev=r
        except Exception as e:
            bad.append((kind,times,vals,reqs,"ERR",type(e).__name__,str(e)[:80]))
print("C12 evaluations",n,"bad",len(bad)); 
for b in bad[:10]: print(b)
import collections; print(collections.Counter(b[0] for b in bad))
