import itertools, warnings, logging, datetime as dt, re
warnings.filterwarnings("ignore")
import numpy as np, finam as fm
T0=dt.datetime(2000,1,1)
class Sh(fm.TimeComponent):
    """in: list of (name, pull?) ; out: list of (name, mode) mode: 'init' info at init, 'from:<in>' rule; data: 'now' | 'afterpull'"""
    def __init__(self, name, ins, outs, data="now", start=0):
        super().__init__(); self._name=name; self._time=T0+dt.timedelta(days=start); self.ins=ins; self.outs=outs; self.data=data; self.log=[]
    def _next_time(self): return self.time+dt.timedelta(days=1)
    def _initialize(self):
        for n,_ in self.ins: self.inputs.add(name=n, time=self.time, grid=fm.NoGrid(), units=None)
        rules={}
        for n,mode in self.outs:
            if mode=="init": self.outputs.add(name=n, time=self.time, grid=fm.NoGrid(), units="m")
            else:
                self.outputs.add(name=n); rules[n]=[fm.tools.FromInput(mode.split(":")[1])]
        self.create_connector(pull_data=[n for n,p in self.ins if p], out_info_rules=rules)
    def _connect(self, st):
        pd={}
        if self.data=="now" or self.connector.all_data_pulled:
            for n,_ in self.outs:
                if not self.connector.data_pushed[n]: pd[n]=1.0
        self.try_connect(st, push_data=pd); self.log.append(self.status.name)
    def _validate(self): pass
    def _update(self): self._time+=dt.timedelta(days=1)
    def _finalize(self): pass
def trial(build, order):
    comps,links=build()
    comp=fm.Composition([comps[i] for i in order], print_log=False, log_level=logging.CRITICAL)
    for (a,o,b,i) in links: comps[a].outputs[o] >> comps[b].inputs[i]
    try:
        comp.connect(); return "ok", {c.name:c.status.name for c in comps}, {c.name:c.log for c in comps}
    except fm.FinamCircularCouplingError as e:
        m=re.search(r"\[(.*)\]",str(e)); return "stall:"+m.group(1), {c.name:c.status.name for c in comps}, {c.name:c.log for c in comps}
    except Exception as e: return "other:"+type(e).__name__+":"+str(e)[:80], None, None
def chain3():
    A=Sh("A",[],[("o","init")]); B=Sh("B",[("i",True)],[("o","from:i")],data="afterpull"); C=Sh("C",[("i",True)],[("o","from:i")],data="afterpull"); D=Sh("D",[("i",True)],[])
    return [A,B,C,D],[(0,"o",1,"i"),(1,"o",2,"i"),(2,"o",3,"i")]
def circ():
    A=Sh("A",[("i",True)],[("o","init")],data="afterpull"); B=Sh("B",[("i",True)],[("o","init")],data="afterpull"); C=Sh("C",[],[("o","init")]); D=Sh("D",[("i",True)],[])
    return [A,B,C,D],[(0,"o",1,"i"),(1,"o",0,"i"),(2,"o",3,"i")]
def circ_tail():
    A=Sh("A",[("i",True)],[("o","init")],data="afterpull"); B=Sh("B",[("i",True)],[("o","init")],data="afterpull"); D=Sh("D",[("i",True)],[])  # D downstream of B: also stuck
    return [A,B,D],[(0,"o",1,"i"),(1,"o",0,"i"),(1,"o",2,"i")]
def offs():
    A=Sh("A",[],[("o","init")],start=2); D=Sh("D",[("i",True)],[],start=0)
    return [A,D],[(0,"o",1,"i")]
for name,b in [("chain3",chain3),("circ",circ),("circ_tail",circ_tail),("offs",offs)]:
    n=len(b()[0]); outs=set()
    for order in itertools.permutations(range(n)):
        r=trial(b,order); outs.add((r[0], tuple(sorted(r[1].items())) if r[1] else None))
    print(name, len(outs)); 
    for o in outs: print("   ",o)
comps,links=offs(); comp=fm.Composition(comps,print_log=False,log_level=logging.CRITICAL); comps[0].outputs["o"]>>comps[1].inputs["i"]; comp.connect()
print([ (t-T0).days for t,_ in comps[0].outputs["o"].data], comps[1].connector.in_data)
