import datetime as dt, logging
import finam as fm
from finam.schedule import _find_dependencies
T0=dt.datetime(2000,1,1)
def mk(step_a, step_b, delays):
    log=[]
    a = fm.components.CallbackComponent(inputs={}, outputs={"Out": fm.Info(None, grid=fm.NoGrid())}, callback=lambda i,t: {"Out": (t-T0).days}, start=T0, step=dt.timedelta(days=step_a)).with_name("A")
    def cb(i,t):
        log.append((t, float(i["In"].magnitude[0]) if i else None)); return {}
    b = fm.components.CallbackComponent(inputs={"In": fm.Info(None, grid=fm.NoGrid())}, outputs={}, callback=cb, start=T0, step=dt.timedelta(days=step_b)).with_name("B")
    comp = fm.Composition([b,a], print_log=False, log_level=logging.ERROR)
    x = a.outputs["Out"]
    for d in delays:
        x = x >> fm.adapters.DelayFixed(dt.timedelta(days=d))
    x >> b.inputs["In"]
    return comp,a,b,log
comp,a,b,log = mk(1,10,[4,3])
# wrap update to log
upd=[]
for c in (a,b):
    orig=c._update
    def w(c=c,orig=orig):
        upd.append((c.name, c.time, a.outputs["Out"].time)); orig()
    c._update=w
gd=[]
og=a.outputs["Out"].get_data
def g(time,target):
    gd.append(time); return og(time,target)
a.outputs["Out"].get_data=g
comp.run(end_time=T0+dt.timedelta(days=30))
print([ (n,(t-T0).days,(o-T0).days) for n,t,o in upd])
print([(t-T0).days for t in gd])
print([( (t-T0).days, v) for t,v in log])
