# C11/C12 brute-force: scripted source -> adapter -> scripted pulls, compare to exact definitions
import itertools, warnings, logging, datetime as dt
from fractions import Fraction as F
warnings.filterwarnings("ignore")
import numpy as np, finam as fm
T0=dt.datetime(2000,1,1)
D=lambda k: T0+dt.timedelta(days=k)
def setup(adapter, times, vals, units="m"):
    out = fm.Output(name="Out", info=fm.Info(T0, grid=fm.NoGrid(), units=units))
    inp = fm.Input(name="In", info=fm.Info(T0, grid=fm.NoGrid(), units=None))
    out >> adapter >> inp
    inp.ping()
    inp.exchange_info()
    return out, inp
def lin(full,t):
    for (t0,v0),(t1,v1) in zip(full,full[1:]):
        if t0<=t<=t1: return v0+F(t-t0,t1-t0)*(v1-v0)
def stepf(full,t,s):
    for (t0,v0),(t1,v1) in zip(full,full[1:]):
        if t==t0: return v0
        if t==t1: return v1
        if t0<t<t1: return v1 if F(t-t0,t1-t0)>s else v0
def integ(full,a,b,s):
    # integral of interpolant over [a,b]; s None linear else step position
    tot=F(0)
    for (t0,v0),(t1,v1) in zip(full,full[1:]):
        lo,hi=max(a,t0),min(b,t1)
        if hi<=lo: continue
        if s is None:
            va=v0+F(lo-t0,t1-t0)*(v1-v0); vb=v0+F(hi-t0,t1-t0)*(v1-v0)
            tot+=(hi-lo)*(va+vb)/2
        else:
            ts=t0+s*(t1-t0)
            tot+=max(F(0),min(hi,ts)-lo if lo<ts else 0)*v0 + max(F(0),hi-max(lo,ts))*v1
    return tot
bad=[]
n=0
gapsets=list(itertools.product((1,2,3),repeat=3))
valsets=[(0,4,1,7),(5,5,2,9)]
for gaps in gapsets:
  times=[0]; 
  for g in gaps: times.append(times[-1]+g)
  for vals in valsets:
    full=list(zip(times,[F(v) for v in vals]))
    # request sequences: all nondecreasing sequences of length<=3 over 0..times[-1], issued after all pushes OR interleaved (push i then requests <= times[i])
    reqs_all=[r for L in (1,2,3) for r in itertools.combinations_with_replacement(range(times[-1]+1),L)]
    for kind in ["next","prev","linear","step0","step.5","step1","step.25"]:
      for reqs in reqs_all[::3]:
        mk={"next":fm.adapters.NextTime,"prev":fm.adapters.PreviousTime,"linear":fm.adapters.LinearTime,"step0":lambda: fm.adapters.StepTime(0.0),"step.5":lambda: fm.adapters.StepTime(0.5),"step1":lambda: fm.adapters.StepTime(1.0),"step.25":lambda: fm.adapters.StepTime(0.25)}[kind]
        ad=mk(); out,inp=setup(ad,times,vals)
        # interleave: push publications lazily: before each request push all with time <= next pub >= req
        pushed=0
        def push_until(t):
            global pushed
            while pushed<len(times) and (pushed==0 or times[pushed-1]<t):
                out.push_data(float(vals[pushed]), D(times[pushed])); pushed+=1
        pushed=0
        try:
            for r in reqs:
                push_until(r)
                got=float(inp.pull_data(D(r)).magnitude.flat[0])
                if kind=="next": exp=next(v for t,v in full if t>=r)
                elif kind=="prev": exp=[v for t,v in full if t<=r][-1]
                elif kind=="linear": exp=lin(full,r)
                else:
                    s={"step0":F(0),"step.5":F(1,2),"step1":F(1),"step.25":F(1,4)}[kind]; exp=stepf(full,r,s)
                n+=1
                if abs(got-float(exp))>1e-9: bad.append((kind,times,vals,reqs,r,got,float(exp)))
        except Exception as e:
            bad.append((kind,times,vals,reqs,"ERR",type(e).__name__,str(e)[:80]))
print("C11 evaluations",n,"bad",len(bad)); print(bad[:8])
