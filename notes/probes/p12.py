import itertools, numpy as np, warnings
warnings.filterwarnings("ignore")
import finam as fm
from finam.data import tools as dt
cat=["m","km","mm","cm","m2","m**2","km2","s","d","h","min","year","m/s","km/h","mm/d","mm d-1","kg m-2 s-1","kg/m2/s","mm/s","degC","K","degF","%","1","","percent","ppm","Pa","hPa","bar","N/m2","J","kJ","W","W/m2","g","kg","t","mol","l","m3","dm3","degree","rad","psu","gpm"]
res={}
for a,b in itertools.product(cat,repeat=2):
    try:
        c=dt.compatible_units(a,b); e=dt.equivalent_units(a,b)
        res[(a,b)]=(bool(c),bool(e))
    except Exception as ex:
        res[(a,b)]=("ERR",type(ex).__name__,str(ex)[:60])
errs={k:v for k,v in res.items() if v[0]=="ERR"}
print("errs",len(errs)); print(list(errs.items())[:8])
# symmetric?
asym=[(a,b) for (a,b),v in res.items() if v[0]!="ERR" and res[(b,a)][0]!="ERR" and v[0]!=res[(b,a)][0]]
print("asym compat",asym[:10])
asymE=[(a,b) for (a,b),v in res.items() if v[0]!="ERR" and res[(b,a)][0]!="ERR" and v[1]!=res[(b,a)][1]]
print("asym equiv",asymE[:10])
print("equiv pairs", [(a,b) for (a,b),v in res.items() if v[0]!="ERR" and v[1] and a<b])
print(res[("degC","K")],res[("K","degC")],res[("mm/d","kg m-2 s-1")],res[("%","1")],res[("1","")],res[("ppm","1")])
# history: clear cache and query reverse order
dt.clear_units_cache()
res2={}
for a,b in reversed(list(itertools.product(cat,repeat=2))):
    try: res2[(a,b)]=(bool(dt.equivalent_units(a,b)) ,) 
    except Exception as ex: res2[(a,b)]=("ERR",)
for a,b in itertools.product(cat,repeat=2):
    try: res2[(a,b)]=(bool(dt.compatible_units(a,b)),)+res2[(a,b)]
    except Exception as ex: pass
diff=[k for k in res if res[k][0]!="ERR" and res2[k][:2]!=res[k][:2]]
print("history diffs",diff[:10])
