import itertools, numpy as np, warnings
warnings.filterwarnings("ignore")
import finam as fm
from finam.data import tools as dt
bad=0;n=0
for dim in (1,2,3):
  for dims in itertools.product((1,2,3),repeat=dim):
    for order in "CF":
      for rev in (False,True):
        for inc in itertools.product((True,False),repeat=dim):
          for loc in ("CELLS","POINTS"):
            try:
                g=fm.UniformGrid(dims,order=order,axes_reversed=rev,axes_increase=list(inc),data_location=loc)
                shp=g.data_shape; axes=g.data_axes; pts=g.data_points
                ok = len(pts)==int(np.prod(shp)) == g.data_size
                if ok:
                  for idx in np.ndindex(*[int(s) for s in shp]):
                    coord_by_axes=[axes[k][idx[k]] for k in range(dim)]
                    if rev: coord_by_axes=coord_by_axes[::-1]
                    flat=np.ravel_multi_index(idx,[int(s) for s in shp],order=order)
                    if not np.allclose(pts[flat],coord_by_axes): ok=False;break
                # cell centers = mean of nodes
                cc=g.cell_centers; cells=g.cells; P=g.points
                ok2 = np.allclose(cc, np.array([P[c[:fm.data.grid_tools.NODE_COUNT[t]]].mean(axis=0) for c,t in zip(cells,g.cell_types)])) and cells.max()<len(P) and cells.min()>=0
            except Exception as e:
                ok=False; ok2=True; print("ERR",dims,order,rev,inc,loc,type(e).__name__,str(e)[:80])
            n+=1
            if not (ok and ok2):
                bad+=1
                if bad<10: print("BAD",dims,order,rev,inc,loc,ok,ok2)
print("C14",n,"bad",bad)
