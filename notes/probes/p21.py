import itertools, warnings, logging, datetime as dt
warnings.filterwarnings("ignore"); logging.disable(logging.CRITICAL)
import numpy as np, finam as fm
T0=dt.datetime(2000,1,1); D=lambda k: T0+dt.timedelta(days=k)
# C20 static output/input
out=fm.Output(name="O", info=fm.Info(None, grid=fm.NoGrid(), units="m"), static=True)
inp=fm.Input(name="I", info=fm.Info(None, grid=fm.NoGrid(), units="km"), static=True)
out >> inp; inp.ping(); inp.exchange_info()
try:
    inp.pull_data(D(1)); print("pull before push OK?!")
except Exception as e: print("pull before push:", type(e).__name__)
out.push_data(5.0, None)
try: out.push_data(6.0, None); print("second push accepted!")
except Exception as e: print("second push:", type(e).__name__)
for t in (None, D(0), D(100)):
    print("out.get", t, out.get_data(t, inp).magnitude, "inp.pull", inp.pull_data(t))
# push with a time on static
out2=fm.Output(name="O", info=fm.Info(None, grid=fm.NoGrid(), units="m"), static=True); i2=fm.Input(name="I", info=fm.Info(None, grid=fm.NoGrid(), units="m")); out2>>i2; i2.ping(); i2.exchange_info()
out2.push_data(1.0, D(3)); print("static push with time -> stored time", out2.data[0][0], "pull non-static input", i2.pull_data(D(7)))
# C08 payload forms
g=fm.UniformGrid((3,4))  # cells 2x3
def mkpair(grid, ou="m", iu="km"):
    o=fm.Output(name="O", info=fm.Info(T0, grid=grid, units=ou)); i=fm.Input(name="I", info=fm.Info(T0, grid=grid, units=iu)); o>>i; i.ping(); i.exchange_info(); return o,i
forms={
 "shaped": lambda: np.arange(6.).reshape(2,3),
 "flat": lambda: np.arange(6.),
 "with_time": lambda: np.arange(6.).reshape(1,2,3),
 "list": lambda: [[0.,1,2],[3,4,5]],
 "masked": lambda: np.ma.array(np.arange(6.).reshape(2,3), mask=[[0,1,0],[0,0,0]]),
 "quant_same": lambda: fm.UNITS.Quantity(np.arange(6.).reshape(2,3),"m"),
 "quant_conv": lambda: fm.UNITS.Quantity(np.arange(6.).reshape(2,3),"cm"),
 "quant_incompat": lambda: fm.UNITS.Quantity(np.arange(6.).reshape(2,3),"s"),
 "wrong_shape": lambda: np.arange(6.).reshape(3,2),
 "wrong_size": lambda: np.arange(5.),
 "int_array": lambda: np.arange(6).reshape(2,3),
}
for name,f in forms.items():
    o,i=mkpair(g)
    try:
        o.push_data(f(), D(0)); r=i.pull_data(D(0)); print(name, "->", r.shape, str(r.units), type(r.magnitude).__name__, np.ma.getmaskarray(r.magnitude).sum(), r.magnitude.ravel()[:3])
    except Exception as e: print(name, "ERR", type(e).__name__, str(e)[:70])
# scalar on NoGrid
for name,v in [("scalar",1.5),("list1",[1.5]),("arr0", np.array(1.5)),("quant", fm.UNITS.Quantity(150.,"cm"))]:
    o,i=mkpair(fm.NoGrid())
    try: o.push_data(v, D(0)); r=i.pull_data(D(0)); print(name,"->",r.shape,r)
    except Exception as e: print(name,"ERR",type(e).__name__,str(e)[:70])
# aliasing
o,i=mkpair(g); a=np.arange(6.).reshape(2,3); o.push_data(a,D(0))
try: o.push_data(a,D(1)); print("alias accepted")
except Exception as e: print("alias:",type(e).__name__)
try: o.push_data(a[::-1],D(1)); print("alias view accepted")
except Exception as e: print("alias view:",type(e).__name__)
