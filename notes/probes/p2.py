import datetime as dt, logging, os, tempfile
import numpy as np
import finam as fm
T0=dt.datetime(2000,1,1)
# Probe 2
g = fm.UniformGrid((4,3))
print("shape cells", g.data_shape, g.data_size)
g.data_location = fm.Location.POINTS
print("shape points after set", g.data_shape, g.data_size, len(g.data_points))
g2 = fm.UniformGrid((4,3), data_location="POINTS"); print(g2.data_shape)
# Probe 3
for ar in (False, True):
  for ar2 in (False, True):
    src = fm.UniformGrid((4,3), axes_reversed=ar)
    dst = fm.UniformGrid((4,3), axes_reversed=ar2, axes_increase=[True, False])
    tr = src.get_transform_to(dst)
    data = np.arange(6, dtype=float).reshape((1,)+src.data_shape)
    try:
        out = tr(data)
        print(ar, ar2, "time-axis transform shape", out.shape, "expected", (1,)+dst.data_shape)
    except Exception as e:
        print(ar, ar2, "ERR", type(e).__name__, e)
    try:
        out = tr(data[0])
        print(ar, ar2, "no-time transform shape", out.shape)
    except Exception as e:
        print(ar, ar2, "ERR", type(e).__name__, e)
