import datetime as dt, logging
import finam as fm
T0=dt.datetime(2000,1,1)
def run(mk_chain, sa=1, sb=5, end=20):
    log=[]
    a = fm.components.CallbackComponent(inputs={}, outputs={"Out": fm.Info(None, grid=fm.NoGrid())}, callback=lambda i,t: {"Out": (t-T0).days}, start=T0, step=dt.timedelta(days=sa)).with_name("A")
    def cb(i,t):
        log.append(((t-T0).days, float(i["In"].magnitude[0]) if i else None)); return {}
    b = fm.components.CallbackComponent(inputs={"In": fm.Info(None, grid=fm.NoGrid())}, outputs={}, callback=cb, start=T0, step=dt.timedelta(days=sb)).with_name("B")
    comp = fm.Composition([b,a], print_log=False, log_level=logging.CRITICAL)
    x = a.outputs["Out"]
    for ad in mk_chain(): x = x >> ad
    x >> b.inputs["In"]
    comp.run(end_time=T0+dt.timedelta(days=end))
    return log
D=lambda d: fm.adapters.DelayFixed(dt.timedelta(days=d))
for name, ch in [("delay>>linear", lambda: [D(3), fm.adapters.LinearTime()]), ("linear>>delay", lambda: [fm.adapters.LinearTime(), D(3)]),
                 ("delay>>avg", lambda: [D(3), fm.adapters.AvgOverTime()]), ("topull>>linear", lambda:[fm.adapters.DelayToPull(), fm.adapters.LinearTime()]),
                 ("linear>>topull", lambda:[fm.adapters.LinearTime(), fm.adapters.DelayToPull()]),
                 ("topush>>linear", lambda:[fm.adapters.DelayToPush(), fm.adapters.LinearTime()]),
                 ("linear>>topush", lambda:[fm.adapters.LinearTime(), fm.adapters.DelayToPush()])]:
    try: print(name, "OK", run(ch))
    except Exception as e: print(name, "ERR", type(e).__name__, str(e)[:160])
