# C05 probe: outcome under all listing orders / link orders for random small compositions (single delay adapters only)
import itertools, random, warnings, logging, datetime as dt, tempfile
warnings.filterwarnings("ignore"); logging.disable(logging.CRITICAL)
import numpy as np, finam as fm
T0=dt.datetime(2000,1,1)
class H(fm.TimeComponent):
    def __init__(self, name, step, off, nin, initial_pull):
        super().__init__(); self._name=name; self._time=T0+dt.timedelta(days=off); self.step=dt.timedelta(days=step); self.nin=nin; self.ip=initial_pull; self.series=[]; self.idx=int(name[1:])
        self.gen=False
    def _next_time(self): return self.time+self.step
    def _initialize(self):
        for i in range(self.nin): self.inputs.add(name=f"In{i}", time=self.time, grid=fm.NoGrid(), units="m")
        self.outputs.add(name="Out", time=self.time, grid=fm.NoGrid(), units="m")
        self.create_connector(pull_data=[f"In{i}" for i in range(self.nin)] if self.ip else [])
    def val(self, ins): return 1000*self.idx + (self.time-T0).days + 0.001*sum(ins)
    def _connect(self, st):
        pd={}
        if not self.gen and (not self.ip or self.connector.all_data_pulled):
            ins=[float(self.connector.in_data[f"In{i}"].magnitude.flat[0]) for i in range(self.nin)] if self.ip else []
            if self.ip: self.series.append(("init",tuple(ins)))
            pd={"Out": self.val(ins)}; self.gen=True
        self.try_connect(st, push_data=pd)
    def _validate(self): pass
    def _update(self):
        self._time+=self.step
        ins=[float(self.inputs[f"In{i}"].pull_data(self.time).magnitude.flat[0]) for i in range(self.nin)]
        self.series.append(((self.time-T0).days,tuple(round(x,6) for x in ins)))
        self.outputs["Out"].push_data(self.val(ins), self.time)
    def _finalize(self): pass
def build(spec, order, link_order):
    comps=[H(f"c{i}", s, o, len([l for l in spec["links"] if l[1]==i]), ip) for i,(s,o,ip) in enumerate(spec["comps"])]
    td=tempfile.mkdtemp()
    comp=fm.Composition([comps[i] for i in order], print_log=False, slot_memory_location=td)
    cnt={}
    prepared=[]
    for (a,b,ad) in spec["links"]:
        k=cnt.get(b,0); cnt[b]=k+1; prepared.append((a,b,k,ad))
    for j in link_order:
        a,b,k,ad=prepared[j]
        x=comps[a].outputs["Out"]
        if ad[0]=="fixed": x = x >> fm.adapters.DelayFixed(dt.timedelta(days=ad[1]))
        elif ad[0]=="scale": x = x >> fm.adapters.Scale(1.0)
        elif ad[0]=="linear": x = x >> fm.adapters.LinearTime()
        elif ad[0]=="topull": x = x >> fm.adapters.DelayToPull(steps=ad[1])
        x >> comps[b].inputs[f"In{k}"]
    try:
        comp.run(end_time=T0+dt.timedelta(days=spec["end"])); out="ok"
    except Exception as e: out=type(e).__name__
    return out, tuple((c.name,(c.time-T0).days,tuple(c.series)) for c in comps)
rnd=random.Random(5); nbad=0; ntot=0; outcomes={}
for trial in range(150):
    n=rnd.choice([2,3,3,4])
    comps=[(rnd.choice([1,2,3]), rnd.choice([0,0,1]), False) for _ in range(n)]
    if all(c[1]!=0 for c in comps): comps[0]=(comps[0][0],0,False)
    links=[]
    for b in range(n):
        for a in range(n):
            if a!=b and rnd.random()<0.4:
                ad=rnd.choice([("none",),("scale",),("linear",),("fixed",rnd.choice([1,2,4,6])),("topull",1)]) if a<b else ("fixed",rnd.choice([4,6,8]))
                links.append((a,b,ad))
    spec={"comps":comps,"links":links,"end":rnd.choice([5,7])}
    res=set()
    perms=list(itertools.permutations(range(n)))
    lperms=list(itertools.permutations(range(len(links))))[:6] or [()]
    for order in perms:
        for lo in lperms[:3]:
            res.add(build(spec,order,lo))
    ntot+=1
    oc=tuple(sorted({r[0] for r in res})); outcomes[oc]=outcomes.get(oc,0)+1
    if len(res)>1:
        nbad+=1
        if nbad<=4:
            print("ORDER-DEPENDENT", spec)
            for r in list(res)[:3]: print("   ", r[0], [ (c[0],c[1]) for c in r[1]])
print("configs",ntot,"order-dependent",nbad,outcomes)
