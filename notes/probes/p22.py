import itertools, warnings, logging, datetime as dt
warnings.filterwarnings("ignore"); logging.disable(logging.CRITICAL)
import numpy as np, finam as fm, tempfile
T0=dt.datetime(2000,1,1)
def link(src,dst,adapter,data,src_mask=fm.Mask.FLEX,dst_mask=fm.Mask.FLEX):
    td=tempfile.mkdtemp()
    g=fm.components.CallbackGenerator({"Out": (lambda t: data.copy(), fm.Info(None, grid=src, units="", mask=src_mask))}, start=T0, step=dt.timedelta(days=1))
    c=fm.components.DebugConsumer({"In": fm.Info(None, grid=dst, units="", mask=dst_mask)}, start=T0, step=dt.timedelta(days=1))
    comp=fm.Composition([g,c], print_log=False, slot_memory_location=td)
    g.outputs["Out"] >> adapter >> c.inputs["In"]
    comp.connect()
    return c.data["In"]
rng=np.random.default_rng(0)
bad=0;n=0;errs={}
# nearest with masks: src uniform 4x3 cells (3x2), dst unstructured points / other uniform
for trial in range(300):
    o1=rng.choice(["C","F"]); r1=bool(rng.integers(2)); inc1=[bool(x) for x in rng.integers(0,2,2)]
    o2=rng.choice(["C","F"]); r2=bool(rng.integers(2)); inc2=[bool(x) for x in rng.integers(0,2,2)]
    loc=rng.choice(["CELLS","POINTS"])
    src=fm.UniformGrid((4,3),order=o1,axes_reversed=r1,axes_increase=inc1,data_location=loc)
    dst=fm.UniformGrid((6,5),spacing=(0.5,0.5),origin=(0.1,0.05),order=o2,axes_reversed=r2,axes_increase=inc2,data_location=loc)
    sm=rng.random(src.data_shape)<0.3
    if sm.all(): continue
    dm=rng.random(dst.data_shape)<0.3
    pts=src.data_points; vals=(pts[:,0]*10+pts[:,1]); data=np.ma.array(vals.reshape(src.data_shape,order=src.order),mask=sm)
    try:
        out=link(src,dst,fm.adapters.RegridNearest(),data,src_mask=sm,dst_mask=dm)
        o=out.magnitude[0]
        # oracle
        sp=pts[~sm.ravel(order=src.order)]; sv=vals[~sm.ravel(order=src.order)]
        tp=dst.data_points
        om=np.ma.getmaskarray(o).ravel(order=dst.order); od=np.ma.getdata(o).ravel(order=dst.order)
        ok=np.array_equal(om, dm.ravel(order=dst.order))
        for k,(p,m) in enumerate(zip(tp,om)):
            if m: continue
            d2=((sp-p)**2).sum(axis=1); near=set(sv[np.isclose(d2,d2.min())].tolist())
            if od[k] not in near: ok=False
    except Exception as e:
        ok=False; errs[type(e).__name__+":"+str(e)[:60]]=errs.get(type(e).__name__+":"+str(e)[:60],0)+1
    n+=1; bad+=(not ok)
print("nearest masked",n,"bad",bad,errs)
# linear masked/unstructured affine
bad=0;n=0;errs={}
for trial in range(200):
    o1=rng.choice(["C","F"]); r1=bool(rng.integers(2)); inc1=[bool(x) for x in rng.integers(0,2,2)]
    src=fm.UniformGrid((5,4),order=o1,axes_reversed=r1,axes_increase=inc1,data_location="POINTS")
    o2=rng.choice(["C","F"]); r2=bool(rng.integers(2))
    dst=fm.UniformGrid((7,5),spacing=(0.5,0.5),origin=(0.25,0.25),order=o2,axes_reversed=r2,data_location="POINTS")
    sm=rng.random(src.data_shape)<0.15
    pts=src.data_points; a,b,c=rng.integers(-3,4,3); vals=a*pts[:,0]+b*pts[:,1]+c
    data=np.ma.array(vals.reshape(src.data_shape,order=src.order).astype(float),mask=sm)
    try:
        out=link(src,dst,fm.adapters.RegridLinear(),data,src_mask=sm)
        o=out.magnitude[0]; tp=dst.data_points
        om=np.ma.getmaskarray(o).ravel(order=dst.order); od=np.ma.getdata(o).ravel(order=dst.order)
        exp=a*tp[:,0]+b*tp[:,1]+c
        ok=np.allclose(od[~om],exp[~om])
    except Exception as e:
        ok=False; k=type(e).__name__+":"+str(e)[:60]; errs[k]=errs.get(k,0)+1
    n+=1; bad+=(not ok)
print("linear masked affine",n,"bad",bad,errs)
