import datetime as dt, logging
import numpy as np
import finam as fm
T0=dt.datetime(2000,1,1)
class Pull(fm.Component):
    def __init__(self, nin=1): super().__init__(); self.nin=nin
    def _initialize(self):
        for i in range(self.nin):
            self.inputs.add(name=f"In{i}", time=T0, grid=fm.NoGrid(), units="m")
        self.outputs.add(fm.CallbackOutput(callback=self._get, name="Out", time=T0, grid=fm.NoGrid(), units="m"))
        self.create_connector()
    def _connect(self, start_time): self.try_connect(start_time)
    def _validate(self): pass
    def _update(self): pass
    def _finalize(self): pass
    def _get(self, _c, t):
        try:
            return sum(self.inputs[f"In{i}"].pull_data(t).magnitude.copy() for i in range(self.nin))
        except fm.FinamNoDataError: return None
p = fm.components.CallbackGenerator({"Out": (lambda t: (t-T0).days, fm.Info(None, grid=fm.NoGrid(), units="m"))}, start=T0, step=dt.timedelta(days=1)).with_name("P")
w3=Pull().with_name("W3"); w1=Pull().with_name("W1"); w2=Pull().with_name("W2")
got=[]
c = fm.components.DebugConsumer({"A": fm.Info(None, grid=fm.NoGrid(), units="m"),"B": fm.Info(None, grid=fm.NoGrid(), units="m")}, start=T0, step=dt.timedelta(days=2), callbacks={"A": lambda n,d,t: got.append(((t-T0).days,float(d.magnitude.flat[0])))}).with_name("C")
comp = fm.Composition([p,w3,w1,w2,c], print_log=False, log_level=logging.CRITICAL)
p.outputs["Out"] >> w3.inputs["In0"]
w3.outputs["Out"] >> w1.inputs["In0"]
w3.outputs["Out"] >> w2.inputs["In0"]
w1.outputs["Out"] >> c.inputs["A"]
w2.outputs["Out"] >> c.inputs["B"]
try:
    comp.run(end_time=T0+dt.timedelta(days=6)); print("OK", got)
except Exception as e: print("ERR", type(e).__name__, str(e)[:300])
