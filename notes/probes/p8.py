import datetime as dt, logging
import finam as fm
T0=dt.datetime(2000,1,1)
class Fin(fm.TimeComponent):
    def __init__(self, n): super().__init__(); self._time=T0; self.n=n; self.k=0; self.calls=[]
    def _next_time(self): return self.time+dt.timedelta(days=1)
    def _initialize(self):
        self.outputs.add(name="Out", time=self.time, grid=fm.NoGrid()); self.create_connector()
    def _connect(self, st): self.try_connect(st, push_data={"Out": 0})
    def _validate(self): pass
    def _update(self):
        self.k+=1; self.calls.append(self.k)
        if self.k>self.n: raise RuntimeError("updated after finish")
        self._time+=dt.timedelta(days=1); self.outputs["Out"].push_data(self.k, self.time)
        if self.k>=self.n: self.status=fm.ComponentStatus.FINISHED
    def _finalize(self): pass
f=Fin(3).with_name("F")
g=fm.components.CallbackGenerator({"Out": (lambda t: 1, fm.Info(None, grid=fm.NoGrid()))}, start=T0, step=dt.timedelta(days=1)).with_name("G")
comp=fm.Composition([f,g], print_log=False, log_level=logging.CRITICAL)
try:
    comp.run(end_time=T0+dt.timedelta(days=6)); print("OK", f.calls, f.status, g.time)
except Exception as e: print("ERR", type(e).__name__, e, f.calls, f.status)
