import itertools, numpy as np, warnings
warnings.filterwarnings("ignore")
import finam as fm
from finam.data import tools as dt
# C18 roundtrip
bad=0; n=0
for shape in [(3,),(2,3),(2,2,2),(1,3),(3,1,2)]:
    size=int(np.prod(shape))
    for order in "CF":
        for bits in range(2**size) if size<=6 else list(range(0,2**size,7)):
            mask=np.array([(bits>>i)&1 for i in range(size)],bool).reshape(shape)
            data=np.arange(size,dtype=float).reshape(shape)+1
            for quant in (False,True):
                x=np.ma.array(data,mask=mask)
                xin = fm.UNITS.Quantity(x,"m") if quant else x
                try:
                    c=dt.to_compressed(xin,order=order)
                    r=dt.from_compressed(c,shape,order=order,mask=mask)
                    rm = r.magnitude if quant else r
                    ok = np.array_equal(np.ma.getmaskarray(rm),mask) and np.array_equal(rm.data[~mask],data[~mask])
                except Exception as e:
                    ok=False; print("ERR",shape,order,bits,quant,type(e).__name__,e); 
                n+=1; bad+= (not ok)
                if not ok and bad<5: print("BAD",shape,order,bits,quant)
print("C18 roundtrip", n, "bad", bad)
# C16 nearest identity between layouts
import datetime as d, logging
T0=d.datetime(2000,1,1)
def link(src,dst,adapter,data):
    got=[]
    a=fm.components.StaticCallbackGenerator if False else None
    g=fm.components.CallbackGenerator({"Out": (lambda t: data.copy(), fm.Info(None, grid=src, units=""))}, start=T0, step=d.timedelta(days=1))
    c=fm.components.DebugConsumer({"In": fm.Info(None, grid=dst, units="")}, start=T0, step=d.timedelta(days=1), callbacks={"In": lambda n,dd,t: got.append(dd)})
    comp=fm.Composition([g,c], print_log=False, log_level=logging.CRITICAL)
    g.outputs["Out"] >> adapter >> c.inputs["In"]
    comp.connect()
    return got[0] if got else c.connector.in_data["In"] if hasattr(c,'connector') else None
bad=0;n=0
for (o1,r1,i1),(o2,r2,i2) in itertools.product(itertools.product("CF",(False,True),itertools.product((True,False),repeat=2)),repeat=2):
  for loc in ("CELLS","POINTS"):
    src=fm.UniformGrid((4,3),order=o1,axes_reversed=r1,axes_increase=list(i1),data_location=loc)
    dst=fm.UniformGrid((4,3),order=o2,axes_reversed=r2,axes_increase=list(i2),data_location=loc)
    # field = x*10+y at data points
    pts=src.data_points; vals=(pts[:,0]*10+pts[:,1])
    data=vals.reshape(src.data_shape,order=src.order)
    try:
        out=link(src,dst,fm.adapters.RegridNearest(),data)
        o=out.magnitude[0]
        exp=(dst.data_points[:,0]*10+dst.data_points[:,1]).reshape(dst.data_shape,order=dst.order)
        ok=np.allclose(o,exp)
    except Exception as e:
        ok=False; print("ERR",o1,r1,i1,o2,r2,i2,loc,type(e).__name__,str(e)[:100])
    n+=1; bad+=(not ok)
    if not ok and bad<6: print("BAD",o1,r1,i1,o2,r2,i2,loc)
print("C16 nearest identity", n, "bad", bad)
