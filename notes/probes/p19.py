import time, datetime as dt, logging, warnings
warnings.filterwarnings("ignore")
import finam as fm
T0=dt.datetime(2000,1,1)
def run():
    a = fm.components.CallbackComponent(inputs={}, outputs={"Out": fm.Info(None, grid=fm.NoGrid())}, callback=lambda i,t: {"Out": (t-T0).days}, start=T0, step=dt.timedelta(days=1)).with_name("A")
    b = fm.components.CallbackComponent(inputs={"In": fm.Info(None, grid=fm.NoGrid())}, outputs={}, callback=lambda i,t: {}, start=T0, step=dt.timedelta(days=2)).with_name("B")
    comp = fm.Composition([b,a], print_log=False, log_level=logging.CRITICAL)
    a.outputs["Out"] >> fm.adapters.DelayFixed(dt.timedelta(days=1)) >> b.inputs["In"]
    comp.run(end_time=T0+dt.timedelta(days=6))
t=time.time()
for i in range(300): run()
print((time.time()-t)/300*1000,"ms per run")
