import datetime as dt, logging, os, tempfile, itertools
import numpy as np
import finam as fm
T0=dt.datetime(2000,1,1)
class Pull(fm.Component):
    def _initialize(self):
        self.inputs.add(name="In", time=None, grid=fm.NoGrid(), units="m")
        self.outputs.add(fm.CallbackOutput(callback=self._get, name="Out", time=None, grid=fm.NoGrid(), units="m"))
        self.create_connector()
    def _connect(self, start_time): self.try_connect(start_time)
    def _validate(self): pass
    def _update(self): pass
    def _finalize(self): pass
    def _get(self, _c, t):
        try:
            return self.inputs["In"].pull_data(t).magnitude.copy()
        except fm.FinamNoDataError: return None
def run(order, s1, s2, sp):
    p = fm.components.CallbackGenerator({"Out": (lambda t: (t-T0).days, fm.Info(None, grid=fm.NoGrid(), units="m"))}, start=T0, step=dt.timedelta(days=sp)).with_name("P")
    w = Pull().with_name("W")
    got={1:[],2:[]}
    c1 = fm.components.DebugConsumer({"In": fm.Info(None, grid=fm.NoGrid(), units="m")}, start=T0, step=dt.timedelta(days=s1), callbacks={"In": lambda n,d,t: got[1].append(((t-T0).days,float(d.magnitude.flat[0])))}).with_name("C1")
    c2 = fm.components.DebugConsumer({"In": fm.Info(None, grid=fm.NoGrid(), units="m")}, start=T0, step=dt.timedelta(days=s2), callbacks={"In": lambda n,d,t: got[2].append(((t-T0).days,float(d.magnitude.flat[0])))}).with_name("C2")
    comps={"p":p,"w":w,"1":c1,"2":c2}
    comp = fm.Composition([comps[k] for k in order], print_log=False, log_level=logging.CRITICAL)
    p.outputs["Out"] >> w.inputs["In"]
    w.outputs["Out"] >> c1.inputs["In"]
    w.outputs["Out"] >> c2.inputs["In"]
    comp.run(end_time=T0+dt.timedelta(days=7))
    return got
for order in ["pw12","pw21","21wp"]:
    for (s1,s2,sp) in [(1,3,1),(3,1,1),(1,3,2),(2,3,1)]:
        try:
            got=run(order,s1,s2,sp); print(order,s1,s2,sp,"OK",got[1][:5],got[2][:3])
        except Exception as e:
            print(order,s1,s2,sp,"ERR",type(e).__name__,str(e)[:120])
