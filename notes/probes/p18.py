import itertools, warnings, logging, datetime as dt, collections
warnings.filterwarnings("ignore")
import numpy as np, finam as fm
T0=dt.datetime(2000,1,1)
G=fm.UniformGrid((3,4)); Gp=fm.UniformGrid((3,4),axes_reversed=True); H=fm.UniformGrid((4,4)); N=fm.NoGrid()
M=np.zeros(G.data_shape,bool); M[0,0]=True
Mp=Gp.from_canonical(G.to_canonical(M)); 
Nn=np.zeros(G.data_shape,bool); Nn[1,1]=True
grids={"None":None,"g":G,"g'":Gp,"h":H}
units={"None":None,"m":"m","km":"km","s":"s"}
masks={"FLEX":fm.Mask.FLEX,"NONE":fm.Mask.NONE,"M":M,"M'":Mp,"N":Nn}
def mask_for(grid_key, mkey):
    m=masks[mkey]
    return m
class P(fm.TimeComponent):
    def __init__(self,info): super().__init__(); self._time=T0; self.info0=info
    def _next_time(self): return self.time+dt.timedelta(days=1)
    def _initialize(self): self.outputs.add(name="Out", info=self.info0); self.create_connector()
    def _connect(self,st):
        d={}
        if self.connector.out_infos["Out"] is not None and not self.connector.data_pushed["Out"]:
            i=self.connector.out_infos["Out"]
            d={"Out": np.zeros(i.grid.data_shape)}
        self.try_connect(st, push_data=d)
    def _validate(self): pass
    def _update(self): self._time+=dt.timedelta(days=1)
    def _finalize(self): pass
class C(fm.TimeComponent):
    def __init__(self,info): super().__init__(); self._time=T0; self.info0=info
    def _next_time(self): return self.time+dt.timedelta(days=1)
    def _initialize(self): self.inputs.add(name="In", info=self.info0); self.create_connector(pull_data=["In"])
    def _connect(self,st): self.try_connect(st)
    def _validate(self): pass
    def _update(self): self._time+=dt.timedelta(days=1)
    def _finalize(self): pass
stats=collections.Counter(); odd=[]
for pg,pu,pm,pt in itertools.product(grids,units,masks,("None","t")):
  for cg,cu,cm,ct in itertools.product(grids,units,masks,("None","t")):
    # skip masks inconsistent with own grid shape
    def mk(g,u,m,t):
        return fm.Info(time=(T0 if t=="t" else None), grid=grids[g], units=units[u], mask=masks[m])
    try:
        pi=mk(pg,pu,pm,pt); ci=mk(cg,cu,cm,ct)
    except Exception as e:
        stats["skip-info:"+type(e).__name__]+=1; continue
    p=P(pi); c=C(ci)
    comp=fm.Composition([p,c],print_log=False,log_level=logging.CRITICAL)
    p.outputs["Out"] >> c.inputs["In"]
    try:
        comp.connect(); res="ok"
    except fm.FinamMetaDataError as e: res="meta"
    except fm.FinamCircularCouplingError: res="stall"
    except Exception as e: res="other:"+type(e).__name__+":"+str(e)[:50]
    stats[res]+=1
    if res.startswith("other") and len(odd)<40: odd.append(((pg,pu,pm,pt),(cg,cu,cm,ct),res))
    if res=="ok":
        ii=c.inputs["In"].info; oi=p.outputs["Out"].info
        problems=[]
        if ii.grid is None or ii.units is None or ii.time is None or ii.mask is None: problems.append("unset")
        if not problems:
            if not fm.data.tools.compatible_units(ii.units, oi.units): problems.append("units")
            if not ii.grid.compatible_with(oi.grid): problems.append("grid")
        if problems: odd.append(((pg,pu,pm,pt),(cg,cu,cm,ct),"OKBUT",problems))
print(stats)
for o in odd[:40]: print(o)
