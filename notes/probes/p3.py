import datetime as dt, logging, os, tempfile
import numpy as np
import finam as fm
T0=dt.datetime(2000,1,1)
def run(src_grid, dst_grid, adapter=None, limit=None, loc=None, masked=False, steps=3):
    got=[]
    def gen(t):
        d=np.arange(src_grid.data_size, dtype=float).reshape(src_grid.data_shape, order=src_grid.order) + (t-T0).days*100
        if masked:
            m=np.zeros(src_grid.data_shape,bool); m.flat[1]=True
            d=np.ma.array(d, mask=m)
        return d
    a = fm.components.CallbackGenerator({"Out": (gen, fm.Info(None, grid=src_grid, units="m"))}, start=T0, step=dt.timedelta(days=2))
    b = fm.components.DebugConsumer({"In": fm.Info(None, grid=dst_grid, units="m")}, start=T0, step=dt.timedelta(days=1), callbacks={"In": lambda n,d,t: got.append((t,d))})
    comp = fm.Composition([a,b], print_log=False, log_level=logging.ERROR, slot_memory_limit=limit, slot_memory_location=loc)
    x=a.outputs["Out"]
    if adapter is not None: x = x >> adapter
    x >> b.inputs["In"]
    comp.run(end_time=T0+dt.timedelta(days=steps))
    return got
src = fm.UniformGrid((4,3))
dst = fm.UniformGrid((4,3), axes_reversed=True)
try:
    got = run(src,dst); print("link OK", got[0][1].shape)
except Exception as e: print("LINK ERR", type(e).__name__, e)
src = fm.EsriGrid(3,2); dst=fm.UniformGrid((4,3))
try:
    got = run(src,dst); print("link OK", got[0][1].shape)
except Exception as e: print("LINK ERR", type(e).__name__, e)
# memory-limit probes
g=fm.UniformGrid((4,3))
for name, mk in [("none", lambda: None), ("Linear", fm.adapters.LinearTime), ("Step", fm.adapters.StepTime), ("Next", fm.adapters.NextTime), ("Prev", fm.adapters.PreviousTime), ("Avg", fm.adapters.AvgOverTime), ("Sum", lambda: fm.adapters.SumOverTime(per_time=False))]:
  for masked in (False, True):
    ref = run(g,g,mk(), steps=5, masked=masked)
    for limit in (0, 60, 100, 200):
        with tempfile.TemporaryDirectory() as td:
            try:
                got = run(g,g,mk(),limit=limit,loc=td, steps=5, masked=masked)
                same = len(got)==len(ref) and all(np.ma.allequal(x[1].magnitude,y[1].magnitude) and np.array_equal(np.ma.getmaskarray(x[1].magnitude), np.ma.getmaskarray(y[1].magnitude)) for x,y in zip(got,ref))
                print(name, "masked" if masked else "plain", limit, "same" if same else "DIFF", "left:", os.listdir(td))
            except Exception as e:
                print(name, "masked" if masked else "plain", limit, "ERR", type(e).__name__, str(e)[:100], "left:", os.listdir(td))
