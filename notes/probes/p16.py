# C19 brute-force: chains output -> adapters -> input with kinds; compare connect() outcome to rule oracle
import itertools, warnings, logging, datetime as dt
warnings.filterwarnings("ignore")
import numpy as np, finam as fm
T0=dt.datetime(2000,1,1)
class Pass(fm.Adapter):
    def _get_data(self,t,tg): return self.pull_data(t,tg)
class PushB(fm.Adapter):
    def __init__(self): super().__init__(); self.d=None
    @property
    def needs_push(self): return True
    def _source_updated(self,t): self.d=self.pull_data(t,self)
    def _get_data(self,t,tg):
        if self.d is None: raise fm.FinamNoDataError("no")
        return self.d
class NoBr(Pass, fm.NoBranchAdapter): pass
class NoBrPush(PushB, fm.NoBranchAdapter): pass
AD={"p":Pass,"b":PushB,"n":NoBr,"t":NoBrPush,"d":lambda: fm.adapters.DelayFixed(dt.timedelta(days=1))}
class Src(fm.TimeComponent):
    def __init__(self,kind): super().__init__(); self._time=T0; self.kind=kind
    def _next_time(self): return self.time+dt.timedelta(days=1)
    def _initialize(self):
        if self.kind=="push": self.outputs.add(name="Out", time=self.time, grid=fm.NoGrid())
        elif self.kind=="static": self.outputs.add(name="Out", time=None, grid=fm.NoGrid(), static=True)
        else: self.outputs.add(fm.CallbackOutput(callback=lambda c,t: 1.0, name="Out", time=self.time, grid=fm.NoGrid()))
        self.create_connector()
    def _connect(self,st):
        self.try_connect(st, push_data={"Out":1.0} if self.kind!="pull" else {})
    def _validate(self): pass
    def _update(self):
        self._time+=dt.timedelta(days=1)
        if self.kind=="push": self.outputs["Out"].push_data(1.0,self.time)
    def _finalize(self): pass
class Snk(fm.TimeComponent):
    def __init__(self,kinds): super().__init__(); self._time=T0; self.kinds=kinds
    def _next_time(self): return self.time+dt.timedelta(days=1)
    def _initialize(self):
        for i,k in enumerate(self.kinds):
            if k=="pull": self.inputs.add(name=f"In{i}", time=self.time, grid=fm.NoGrid())
            elif k=="static": self.inputs.add(name=f"In{i}", time=None, grid=fm.NoGrid(), static=True)
            else: self.inputs.add(fm.CallbackInput(callback=lambda c,t: None, name=f"In{i}", time=self.time, grid=fm.NoGrid()))
        self.create_connector()
    def _connect(self,st): self.try_connect(st)
    def _validate(self): pass
    def _update(self): self._time+=dt.timedelta(days=1)
    def _finalize(self): pass
def oracle(src, chain, snk):
    # rule 2 static input fed by non-static output
    if snk=="static" and src!="static": return "reject"
    # rule 5: pull-only source followed by needs_push element
    flags=[("pull" if src=="pull" else "push")]
    needs_pull=[src=="pull"]+[False]*len(chain)+[snk in("pull","static")]
    needs_push=[src!="pull"]+[c in "bt" for c in chain]+[snk=="push"]
    seen=False
    for np_,npl in zip(needs_push,needs_pull):
        if seen and np_: return "reject"
        if npl: seen=True
    return "ok"
res={"agree":0}; dis=[]
for src in ("push","pull","static"):
  for L in range(0,4):
    for chain in itertools.product("pbntd",repeat=L):
      for snk in ("pull","push","static"):
        s=Src(src); k=Snk([snk])
        comp=fm.Composition([s,k],print_log=False,log_level=logging.CRITICAL)
        x=s.outputs["Out"]
        for c in chain: x = x >> AD[c]()
        x >> k.inputs["In0"]
        try:
            comp.connect(); got="ok"
        except fm.FinamConnectError: got="reject"
        except Exception as e: got="other:"+type(e).__name__+":"+str(e)[:60]
        exp=oracle(src,chain,snk)
        if got==exp: res["agree"]+=1
        else: dis.append((src,"".join(chain),snk,got,exp))
print(res,len(dis))
import collections
print(collections.Counter((d[0],d[2],d[3][:40],d[4]) for d in dis).most_common(20))
print(dis[:10])
