---------------------------- MODULE TimeBuf_Trace ----------------------------
(* Validation of operation histories executed on real finam time adapters   *)
(* (harness/fv/timebuf_run.py).  ev[i] = [op, t, v, res, num, den, units,    *)
(* ret, sp, files, stray]                                                   *)
EXTENDS TimeBufOps, Json, IOUtils, TLC

Traces == ndJsonDeserialize(IOEnv.TRACE_FILE)
VARIABLES tid, i, st, verdict
vars == <<tid, i, st, verdict>>
Tr == Traces[tid]
Fail(c, k) == c \o "@" \o ToString(k)
(* policy clauses (which entries are kept as files, how many files exist, what finalize leaves *)
(* in memory) say more than the properties do: they are evaluated only with FV_STRICT=1        *)
Strict == "FV_STRICT" \in DOMAIN IOEnv /\ IOEnv.FV_STRICT = "1"

UnitsOf(cfg) == IF cfg.pay = "temp" THEN "°C"
                ELSE IF cfg.pay = "flux" THEN (IF cfg.kind = "sum" /\ cfg.pt THEN "m" ELSE "m / s")
                ELSE IF cfg.kind = "sum" /\ cfg.pt THEN "mm" ELSE "mm / d"

SnapVerdict(s2, e, k) ==
  IF Strict /\ e.ret # [j \in 1..Len(s2.lab) |-> s2.lab[j].t] THEN Fail("buffer-retained", k)
  ELSE IF Strict /\ e.sp # [j \in 1..Len(s2.lab) |-> s2.lab[j].sp] THEN Fail("spill-threshold", k)
  ELSE IF Strict /\ e.files # s2.files THEN Fail("files-accounting", k)
  \* every retained entry that is a file is one file; nothing else lies in the location
  ELSE IF Strict /\ e.files # Cardinality({j \in 1..Len(e.sp) : e.sp[j]}) THEN Fail("files-accounting", k)
  ELSE IF e.stray # 0 THEN Fail("files-in-location", k)
  ELSE "ok"

EvVerdict(cfg, s, e, k) ==
  IF e.op = "push" THEN
     IF e.res # "ok" THEN Fail("notify-raised", k) ELSE SnapVerdict(Notify(cfg, s, e.t, e.v), e, k)
  ELSE IF e.op = "get" THEN
     LET r == Get(cfg, s, e.t) IN
     IF r.err # "" THEN (IF e.res = "err:" \o r.err THEN "ok" ELSE Fail("range", k))
     ELSE IF cfg.kind = "stack" THEN
          (IF e.res # "ok" THEN Fail("pull-raised", k)
           ELSE IF e.stack # StackVals(s, e.t) THEN Fail("stack", k) ELSE SnapVerdict(r.st, e, k))
     ELSE IF r.free THEN (IF e.res = "ok" THEN SnapVerdict(r.st, e, k) ELSE "ok")
     ELSE IF e.res # "ok" THEN Fail("pull-raised", k)
     ELSE IF <<e.num, e.den>> # Def(cfg, s.full, s.prev, e.t) THEN Fail("value", k)
     ELSE IF e.units # UnitsOf(cfg) THEN Fail("units", k)
     \* a cell with missing values in SOME publications: where no contributing publication misses it, it carries
     \* the same exact value as its always-present neighbour
     ELSE IF cfg.pay = "hole" /\ NoHole(s.full, IF IsInteg(cfg) THEN s.prev ELSE e.t, e.t) /\ e.b # "same" THEN Fail("value-missing", k)
     ELSE SnapVerdict(r.st, e, k)
  ELSE
     IF e.res # "ok" THEN Fail("finalize-raised", k)
     ELSE IF e.files # 0 \/ e.stray # 0 THEN Fail("no-files-after-finalize", k)
     ELSE "ok"

(* a pull whose value is not asserted may legitimately raise (zero-length   *)
(* average): the state is then unchanged                                    *)
Effect(cfg, s, e) ==
  IF e.op = "push" THEN Notify(cfg, s, e.t, e.v)
  ELSE IF e.op = "get" THEN (IF e.res = "ok" THEN Get(cfg, s, e.t).st ELSE s)
  ELSE Finalize(s)

Init == tid \in 1..Len(Traces) /\ i = 1 /\ st = St0 /\ verdict = "ok"
Next ==
  /\ i <= Len(Tr.ev)
  /\ i' = i + 1 /\ UNCHANGED tid
  /\ IF verdict # "ok" THEN UNCHANGED <<st, verdict>>
     ELSE /\ verdict' = EvVerdict(Tr.cfg, st, Tr.ev[i], i)
          /\ st' = Effect(Tr.cfg, st, Tr.ev[i])
Spec == Init /\ [][Next]_vars

Done == i = Len(Tr.ev) + 1
Collect == Done => IF verdict = "ok" THEN TLCSet(3, TLCGet(3) + 1)
                   ELSE TLCSet(2, TLCGet(2) \cup {<<tid, verdict>>})
ASSUME TLCSet(2, {}) /\ TLCSet(3, 0)
Report == /\ PrintT(<<"ACCEPTED", TLCGet(3)>>)
          /\ PrintT(<<"TOTAL", Len(Traces)>>)
          /\ \A v \in TLCGet(2) : PrintT(<<"VERDICT", v[1], v[2]>>)
=============================================================================
