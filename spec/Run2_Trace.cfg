CONSTRAINT Collect
POSTCONDITION Report
CHECK_DEADLOCK FALSE
INIT TInit
NEXT TNext
