INIT Init
NEXT Next
