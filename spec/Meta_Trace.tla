---- MODULE Meta_Trace ----
(* [case, obs]: case = [po, ci, via] or [po, ci, c2, via]; obs = [res, out, inp, (inp2)] *)
EXTENDS Meta, Json, IOUtils
Traces == ndJsonDeserialize(IOEnv.TRACE_FILE)
VARIABLES tid, verdict
Proj(i) == [time |-> i.time, grid |-> i.grid, units |-> i.units, mask |-> i.mask, foo |-> i.foo]
Verdict(t) ==
  LET c == t.case o == t.obs IN
  IF c.two THEN
     LET e == Exchange2(Proj(c.po), Proj(c.ci), Proj(c.c2)) IN
     IF e.res # "ok" THEN (IF o.res = "err:" \o e.res THEN "ok" ELSE "meta-outcome@1")
     ELSE IF o.res # "ok" THEN "meta-outcome@1"
     ELSE IF Proj(o.out) # e.out THEN "meta-filled-output@1"
     ELSE IF Proj(o.inp) # e.inp1 \/ Proj(o.inp2) # e.inp2 THEN "meta-filled-input@1"
     ELSE "ok"
  ELSE
     LET e == Exchange(Proj(c.po), Proj(c.ci)) IN
     IF e.res # "ok" THEN (IF o.res = "err:" \o e.res THEN "ok" ELSE "meta-outcome@1")
     ELSE IF o.res # "ok" THEN "meta-outcome@1"
     ELSE IF Proj(o.out) # e.out THEN "meta-filled-output@1"
     ELSE IF Proj(o.inp) # e.inp THEN "meta-filled-input@1"
     ELSE "ok"
Init == tid \in 1..Len(Traces) /\ verdict = Verdict(Traces[tid])
Next == FALSE /\ UNCHANGED <<tid, verdict>>
Spec == Init /\ [][Next]_<<tid, verdict>>
Collect == IF verdict = "ok" THEN TLCSet(3, TLCGet(3) + 1) ELSE TLCSet(2, TLCGet(2) \cup {<<tid, verdict>>})
ASSUME TLCSet(2, {}) /\ TLCSet(3, 0)
Report == /\ PrintT(<<"ACCEPTED", TLCGet(3)>>) /\ PrintT(<<"TOTAL", Len(Traces)>>)
          /\ \A v \in TLCGet(2) : PrintT(<<"VERDICT", v[1], v[2]>>)
====
