---- MODULE Meta_Trace ----
(* [case, obs]: case = [po, ci, via] or [po, ci, c2, via]; obs = [res, out, inp, (inp2)] *)
EXTENDS Meta, Json, IOUtils
Traces == ndJsonDeserialize(IOEnv.TRACE_FILE)
VARIABLES tid, verdict
Proj(i) == [time |-> i.time, grid |-> i.grid, units |-> i.units, mask |-> i.mask, foo |-> i.foo]
(* the two concrete forms of "no masked cell" are the same mask *)
Obs(i) == [Proj(i) EXCEPT !.mask = NormMask(@)]
Exp(i) == [i EXCEPT !.mask = NormMask(@)]
Verdict(t) ==
  LET c == t.case o == t.obs IN
  IF c.two THEN
     LET e == Exchange2(Proj(c.po), Proj(c.ci), Proj(c.c2)) IN
     IF e.res # "ok" THEN (IF o.res = "err:" \o e.res THEN "ok" ELSE "meta-outcome@1")
     ELSE IF o.res # "ok" THEN "meta-outcome@1"
     ELSE IF Obs(o.out) # Exp(e.out) THEN "meta-filled-output@1"
     ELSE IF Obs(o.inp) # Exp(e.inp1) \/ Obs(o.inp2) # Exp(e.inp2) THEN "meta-filled-input@1"
     ELSE "ok"
  ELSE
     LET e == IF c.via = "sumtime" THEN ExchangeSum(Proj(c.po), Proj(c.ci)) ELSE Exchange(Proj(c.po), Proj(c.ci)) IN
     IF e.res # "ok" THEN (IF o.res = "err:" \o e.res THEN "ok" ELSE "meta-outcome@1")
     ELSE IF o.res # "ok" THEN "meta-outcome@1"
     ELSE IF Obs(o.out) # Exp(e.out) THEN "meta-filled-output@1"
     ELSE IF Obs(o.inp) # Exp(e.inp) THEN "meta-filled-input@1"
     ELSE "ok"
Init == tid \in 1..Len(Traces) /\ verdict = Verdict(Traces[tid])
Next == FALSE /\ UNCHANGED <<tid, verdict>>
Spec == Init /\ [][Next]_<<tid, verdict>>
Collect == IF verdict = "ok" THEN TLCSet(3, TLCGet(3) + 1) ELSE TLCSet(2, TLCGet(2) \cup {<<tid, verdict>>})
ASSUME TLCSet(2, {}) /\ TLCSet(3, 0)
Report == /\ PrintT(<<"ACCEPTED", TLCGet(3)>>) /\ PrintT(<<"TOTAL", Len(Traces)>>)
          /\ \A v \in TLCGet(2) : PrintT(<<"VERDICT", v[1], v[2]>>)
====
