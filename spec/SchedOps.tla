------------------------------ MODULE SchedOps ------------------------------
(* Guards and effects of the finam driver and of everything an update      *)
(* touches, as operators over a configuration record cfg and a state       *)
(* record s.  Sched.tla (model checking) and Sched_Trace.tla (validation   *)
(* of recorded executions of the real code) use exactly these operators.   *)
(*                                                                         *)
(* cfg.comps[c] = [kind, steps, off, ip, ins]                               *)
(*    kind  "time" (fm.TimeComponent) | "pull" (component with a           *)
(*          CallbackOutput, no time step) | "sink" (component without time *)
(*          step whose inputs are CallbackInputs: it pulls on notification)*)
(*    steps cyclic sequence of step lengths, off start offset from the     *)
(*          composition start (0), ip initial pull during connect          *)
(*    ins[i] = [src, chain]: chain[1] is the adapter next to the input,    *)
(*          chain[Len] the one next to the source output                   *)
(*    chain[j] = [k, d, n, add, b]  k in pass|fixed|topull|topush|buffer|  *)
(*          integ (b names the concrete finam class for the harness)       *)
(* cfg.order listing order of the components, cfg.end end time.            *)
(*                                                                         *)
(* s.time, s.idx   component time, number of updates done                  *)
(* s.pubs[c]       retained publication times of c's output (Output.data)  *)
(* s.last[l]       last request of link l's registered end point at its    *)
(*                 source output (Output._connected_inputs), None if never *)
(* s.ad[l][j]      adapter state [pulls, push, lab, prev]                   *)
(* s.nupd          updates performed by run()                              *)
(* s.full[c]       ghost: every publication time of c so far (what an      *)
(*                 output with unlimited history would hold)               *)
EXTENDS FinamBase

---------------------------------------------------------------------------
(* Static structure *)
Comps(cfg) == 1..Len(cfg.comps)
IsTime(cfg, c) == cfg.comps[c].kind = "time"
TimeComps(cfg) == {c \in Comps(cfg) : IsTime(cfg, c)}
Links(cfg) == UNION {{<<c, i>> : i \in 1..Len(cfg.comps[c].ins)} : c \in Comps(cfg)}
LinkOf(cfg, l) == cfg.comps[l[1]].ins[l[2]]
Src(cfg, l) == LinkOf(cfg, l).src
Chain(cfg, l) == LinkOf(cfg, l).chain
LinksFrom(cfg, p) == {l \in Links(cfg) : Src(cfg, l) = p}

IsBuf(a) == a.k \in {"buffer", "integ"}
FirstBuf(ch) == LET B == {j \in 1..Len(ch) : IsBuf(ch[j])}
                IN IF B = {} THEN Len(ch) + 1 ELSE SetMin(B)

(* initial_time of the delay adapters on link l: the info time of the      *)
(* source output, i.e. the producer's own start time                       *)
SrcT0(cfg, l) == IF IsTime(cfg, Src(cfg, l)) THEN cfg.comps[Src(cfg, l)].off ELSE 0

StepAt(cfg, c, i) == LET st == cfg.comps[c].steps IN st[(i % Len(st)) + 1]
NextT(cfg, s, c) == s.time[c] + StepAt(cfg, c, s.idx[c])
Newest(s, p) == Last(s.pubs[p])

(* token carried by the publication of p at time t: the initial value is   *)
(* published for the composition start and the producer's own start        *)
(* a relay (finam's TimeTrigger) publishes at time t what it pulled for t from its only source, *)
(* a pull-based generator (value = token of the requested time)                                *)
IsRelay(cfg, p) == "relay" \in DOMAIN cfg.comps[p] /\ cfg.comps[p].relay
OwnTok(cfg, p, t) == cfg.tb * p + (IF t < cfg.comps[p].off THEN cfg.comps[p].off ELSE t)
Tok(cfg, p, t) == IF IsRelay(cfg, p) THEN OwnTok(cfg, cfg.comps[p].ins[1].src, t) ELSE OwnTok(cfg, p, t)

---------------------------------------------------------------------------
(* Delay adapters (DelayFixed / DelayToPull / DelayToPush) *)
Shift(a, st, t, t0) ==
  CASE a.k = "fixed"  -> Max2(t - a.d, t0)
    [] a.k = "topull" -> Max2((IF st.pulls = <<>> THEN t0 ELSE st.pulls[1]) - a.add, t0)
    [] a.k = "topush" -> IF st.push = None THEN t0 ELSE Min2(t, st.push)
    [] OTHER          -> t

AfterPull(a, st, t, t0) ==          \* DelayToPull._pulled, called with the original time
  IF a.k # "topull" THEN st
  ELSE LET q == Append(IF st.pulls = <<>> THEN <<t0>> ELSE st.pulls, t)
       IN [st EXCEPT !.pulls = SubSeq(q, Max2(1, Len(q) - a.n + 1), Len(q))]

(* time that arrives at chain position j (j = Len+1: the source output)    *)
(* when the input is pulled at T, with the current adapter states          *)
RECURSIVE ReqAt(_, _, _, _, _)
ReqAt(ch, sts, j, T, t0) ==
  IF j = 1 THEN T
  ELSE Shift(ch[j - 1], sts[j - 1], ReqAt(ch, sts, j - 1, T, t0), t0)

---------------------------------------------------------------------------
(* Pulls.  Every pull operator returns [ok, s, log]: whether every request *)
(* on the way was served, the state afterwards and the requests that       *)
(* reached a component-owned output ("src") or a buffering adapter ("buf") *)
EvictOut(cfg, s, l, t) ==
  LET p == Src(cfg, l)
      last2 == [s.last EXCEPT ![l] = t]
      Lp == LinksFrom(cfg, p)
  IN IF \E x \in Lp : last2[x] = None THEN [s EXCEPT !.last = last2]
     ELSE [s EXCEPT !.last = last2,
                    !.pubs[p] = EvictSeq(s.pubs[p], SetMin({last2[x] : x \in Lp}))]

RECURSIVE PullFrom(_, _, _, _, _)
RECURSIVE PullAll(_, _, _, _, _)

PullFrom(cfg, s, l, j, t) ==
  LET ch == Chain(cfg, l) p == Src(cfg, l) IN
  IF j > Len(ch) THEN
     IF IsTime(cfg, p) THEN
        LET ok == s.pubs[p][1] <= t /\ t <= Newest(s, p)
        IN [ok |-> ok, s |-> IF ok THEN EvictOut(cfg, s, l, t) ELSE s,
            log |-> <<[kind |-> "src", l |-> l, t |-> t, ok |-> ok,
                       near |-> NearestSet(s.pubs[p], t)]>>]
     ELSE PullAll(cfg, s, p, 1, t)
  ELSE
     LET a == ch[j] st == s.ad[l][j] IN
     IF IsBuf(a) THEN
        \* an integration adapter can not answer a repeated request time (zero-length period),
        \* unless it still lies at or before its first retained entry
        LET ok == st.lab # <<>> /\ st.lab[1] <= t /\ t <= Last(st.lab)
                  /\ ~(a.k = "integ" /\ t = st.prev /\ t > st.lab[1])
            st2 == IF a.k = "buffer"
                   THEN [st EXCEPT !.lab = EvictSeq(st.lab, t)]
                   ELSE [st EXCEPT !.lab = EvictSeq(st.lab, st.prev), !.prev = t]
        IN [ok |-> ok, s |-> IF ok THEN [s EXCEPT !.ad[l][j] = st2] ELSE s,
            log |-> <<[kind |-> "buf", l |-> l, t |-> t, ok |-> ok, near |-> {}]>>]
     ELSE
        LET t0 == SrcT0(cfg, l)
            r == PullFrom(cfg, s, l, j + 1, Shift(a, st, t, t0))
        IN [r EXCEPT !.s.ad[l][j] = AfterPull(a, st, t, t0)]

(* a component pulls its inputs i.. at time t, in input order *)
PullAll(cfg, s, c, i, t) ==
  IF i > Len(cfg.comps[c].ins) THEN [ok |-> TRUE, s |-> s, log |-> <<>>]
  ELSE LET r1 == PullFrom(cfg, s, <<c, i>>, 1, t)
           r2 == PullAll(cfg, r1.s, c, i + 1, t)
       IN [ok |-> r1.ok /\ r2.ok, s |-> r2.s, log |-> r1.log \o r2.log]

---------------------------------------------------------------------------
(* Notification after p published at T: travels downstream from the source *)
(* end of every link; buffering adapters pull the new data set and label   *)
(* it T, DelayToPush remembers T.                                          *)
RECURSIVE NotifyLink(_, _, _, _, _)
NotifyLink(cfg, s, l, j, T) ==
  IF j = 0 THEN
     \* the notification arrived at the input: a push-based component ("sink", CallbackInput)
     \* reacts by pulling the new data set
     (IF cfg.comps[l[1]].kind = "sink" THEN PullFrom(cfg, s, l, 1, T) ELSE [ok |-> TRUE, s |-> s, log |-> <<>>])
  ELSE LET a == Chain(cfg, l)[j] IN
       IF a.k = "topush" THEN NotifyLink(cfg, [s EXCEPT !.ad[l][j].push = T], l, j - 1, T)
       ELSE IF IsBuf(a) THEN
          LET r == PullFrom(cfg, s, l, j + 1, T)
              st == r.s.ad[l][j]
              st2 == [st EXCEPT !.lab = Append(st.lab, T),
                                !.prev = IF st.prev = None THEN T ELSE st.prev]
              r2 == NotifyLink(cfg, [r.s EXCEPT !.ad[l][j] = st2], l, j - 1, T)
          IN [ok |-> r.ok /\ r2.ok, s |-> r2.s, log |-> r.log \o r2.log]
       ELSE NotifyLink(cfg, s, l, j - 1, T)

RECURSIVE NotifyAll(_, _, _, _)
NotifyAll(cfg, s, ls, T) ==      \* ls: sequence of links (the result does not depend on its order)
  IF ls = <<>> THEN [ok |-> TRUE, s |-> s, log |-> <<>>]
  ELSE LET r1 == NotifyLink(cfg, s, Head(ls), Len(Chain(cfg, Head(ls))), T)
           r2 == NotifyAll(cfg, r1.s, Tail(ls), T)
       IN [ok |-> r1.ok /\ r2.ok, s |-> r2.s, log |-> r1.log \o r2.log]


(* an output without targets skips the push (Output.push_data) *)
Publish(cfg, s, p, T) ==
  IF LinksFrom(cfg, p) = {} THEN [ok |-> TRUE, s |-> s, log |-> <<>>]
  ELSE NotifyAll(cfg, [s EXCEPT !.pubs[p] = Append(@, T), !.full[p] = Append(@, T)],
                 SetToSeq(LinksFrom(cfg, p)), T)

---------------------------------------------------------------------------
(* One update of time component c (Component.update of the harness         *)
(* component: advance, pull every input at the new time, publish)          *)
EUpdate(cfg, s, c) ==
  LET T == NextT(cfg, s, c)
      s1 == [s EXCEPT !.time[c] = T, !.idx[c] = @ + 1, !.nupd = @ + 1]
      r == PullAll(cfg, s1, c, 1, T)
      n == Publish(cfg, r.s, c, T)
  IN [ok |-> r.ok /\ n.ok, s |-> n.s, log |-> r.log, nlog |-> n.log]

---------------------------------------------------------------------------
(* State after the connect phase: every time component has published its   *)
(* initial value for the composition start (and its own start when later), *)
(* then the initial pulls took place at the composition start.             *)
AdInit == [pulls |-> <<>>, push |-> None, lab |-> <<>>, prev |-> None]

State0(cfg) ==
  [time |-> [c \in Comps(cfg) |-> IF IsTime(cfg, c) THEN cfg.comps[c].off ELSE 0],
   idx  |-> [c \in Comps(cfg) |-> 0],
   pubs |-> [c \in Comps(cfg) |-> <<>>],
   full |-> [c \in Comps(cfg) |-> <<>>],
   last |-> [l \in Links(cfg) |-> None],
   ad   |-> [l \in Links(cfg) |-> [j \in 1..Len(Chain(cfg, l)) |-> AdInit]],
   nupd |-> 0]

RECURSIVE InitPush(_, _, _)
InitPush(cfg, s, cs) ==
  IF cs = <<>> THEN s
  ELSE LET c == Head(cs)
           s1 == Publish(cfg, s, c, 0).s
           s2 == IF cfg.comps[c].off > 0 THEN Publish(cfg, s1, c, cfg.comps[c].off).s ELSE s1
       IN InitPush(cfg, s2, Tail(cs))

RECURSIVE InitPull(_, _, _)
InitPull(cfg, s, cs) ==
  IF cs = <<>> THEN s
  ELSE LET c == Head(cs)
       IN InitPull(cfg, IF cfg.comps[c].ip THEN PullAll(cfg, s, c, 1, 0).s ELSE s, Tail(cs))

InitState(cfg) ==
  InitPull(cfg, InitPush(cfg, State0(cfg), SetToSeq(TimeComps(cfg))), SetToSeq(Comps(cfg)))

---------------------------------------------------------------------------
(* Which producers still lack data for a consumer (C01/C02).  lacking for  *)
(* the pull of link l at time T: the request as it arrives at the source   *)
(* (delays between the input and the first buffering adapter compose; what *)
(* is upstream of a buffering adapter does not act on this pull) is beyond *)
(* the newest publication; a DelayToPush on that stretch removes the       *)
(* dependency.                                                             *)
RECURSIVE LackFrom(_, _, _, _)
LackLink(cfg, s, l, T) ==
  LET ch == Chain(cfg, l)
      fb == FirstBuf(ch)
      req == ReqAt(ch, s.ad[l], fb, T, SrcT0(cfg, l))
      p == Src(cfg, l)
  IN IF \E j \in 1..(fb - 1) : ch[j].k = "topush" THEN {}
     ELSE IF IsTime(cfg, p) THEN (IF Newest(s, p) < req THEN {p} ELSE {})
     ELSE LackFrom(cfg, s, p, req)
LackFrom(cfg, s, c, T) ==
  UNION {LackLink(cfg, s, <<c, i>>, T) : i \in 1..Len(cfg.comps[c].ins)}

Lacks(cfg, s, c) == LackFrom(cfg, s, c, NextT(cfg, s, c))

(* a component that finishes after cfg.comps[c].fin updates (CSV reader at its last row):  *)
(* it is not updated any more and does not keep the run going                               *)
Fin(cfg, c) == IF "fin" \in DOMAIN cfg.comps[c] THEN cfg.comps[c].fin ELSE 0
Finished(cfg, s, c) == Fin(cfg, c) > 0 /\ s.idx[c] >= Fin(cfg, c)
Active(cfg, s) == {c \in TimeComps(cfg) : ~Finished(cfg, s, c)}
LeastAdvanced(cfg, s) ==
  {c \in Active(cfg, s) : \A d \in Active(cfg, s) : s.time[c] <= s.time[d]}

RECURSIVE ReachFrom(_, _, _, _)
ReachFrom(cfg, s, R, k) ==
  IF k = 0 THEN R
  ELSE ReachFrom(cfg, s, R \cup UNION {Lacks(cfg, s, c) : c \in R}, k - 1)

(* C02: a component may be updated iff it is least advanced or upstream of *)
(* a least-advanced one along a chain of components that still lack data   *)
Reach(cfg, s) == ReachFrom(cfg, s, LeastAdvanced(cfg, s), Len(cfg.comps))
AllowedChoice(cfg, s, c) == c \in Reach(cfg, s)
(* C01: ... and nothing it needs is missing *)
Available(cfg, s, c) == Lacks(cfg, s, c) = {}

(* the driver is entitled to report a cycle iff following lacking          *)
(* dependencies from a least-advanced component can come back to a         *)
(* component already on the way                                            *)
LacksPlus(cfg, s, c) == ReachFrom(cfg, s, Lacks(cfg, s, c), Len(cfg.comps))
CycleReachable(cfg, s) == \E c \in Reach(cfg, s) : c \in LacksPlus(cfg, s, c)

AllReached(cfg, s) == \A c \in TimeComps(cfg) : s.time[c] >= cfg.end \/ Finished(cfg, s, c)
(* run() is a do-while loop: one update happens even if end <= start *)
MayUpdate(cfg, s) == (s.nupd = 0 \/ ~AllReached(cfg, s)) /\ Active(cfg, s) # {}
(* a finished producer can not deliver what a consumer still lacks: such a composition is   *)
(* not valid (the driver refuses to update a finished dependency)                           *)
FinishedDependency(cfg, s) == \E c \in Reach(cfg, s) : \E p \in Lacks(cfg, s, c) : Finished(cfg, s, p)

---------------------------------------------------------------------------
(* The driver as coded (Composition._update_recursive with its shared      *)
(* chain dictionary, _find_dependencies).  impl is a record of switches:   *)
(*   compose    delays of chained adapters compose (else: the pinned       *)
(*              commit's "last delay applied to the target time")          *)
(*   aboveBuf   adapters upstream of a buffering adapter are ignored       *)
(*   popPull    a pull-based component that had nothing to update leaves   *)
(*              the chain                                                  *)
(*   keyTime    a pull-based component is "revisited" only when it is      *)
(*              asked for the same time again                              *)
(*   depmax     an output needed by several inputs is needed for the latest *)
(*              of their request times                                     *)
RECURSIVE DrvReq(_, _, _, _, _, _, _)
DrvReq(impl, ch, sts, j, T, cur, t0) ==   \* walk upstream from position j, cur = local_time so far
  IF j > Len(ch) THEN [t |-> cur, nodep |-> FALSE]
  ELSE LET a == ch[j] IN
       IF a.k = "topush" THEN [t |-> cur, nodep |-> TRUE]
       ELSE IF a.k \in {"fixed", "topull"}
            THEN DrvReq(impl, ch, sts, j + 1, T,
                        Shift(a, sts[j], IF impl.compose THEN cur ELSE T, t0), t0)
       ELSE IF IsBuf(a) /\ impl.aboveBuf THEN [t |-> cur, nodep |-> FALSE]
       ELSE DrvReq(impl, ch, sts, j + 1, T, cur, t0)

(* dependency list of component c for target time T, as the dict of        *)
(* _find_dependencies: one entry per source output, in first-insertion     *)
(* order, keeping the largest local time                                   *)
RECURSIVE DrvDeps(_, _, _, _, _, _, _)
DrvDeps(impl, cfg, s, c, T, i, acc) ==
  IF i > Len(cfg.comps[c].ins) THEN acc
  ELSE LET l == <<c, i>>
           p == Src(cfg, l)
           r == DrvReq(impl, Chain(cfg, l), s.ad[l], 1, T, T, SrcT0(cfg, l))
           wanted == ~r.nodep /\ (~IsTime(cfg, p) \/ Newest(s, p) < r.t)
           J == {k \in 1..Len(acc) : acc[k].p = p}
           acc2 == IF ~wanted THEN acc
                   ELSE IF J = {} THEN Append(acc, [p |-> p, t |-> r.t])
                   ELSE LET k == CHOOSE x \in J : TRUE
                        IN IF (IF impl.depmax THEN r.t > acc[k].t ELSE r.t < acc[k].t)
                           THEN [acc EXCEPT ![k].t = r.t] ELSE acc
       IN DrvDeps(impl, cfg, s, c, T, i + 1, acc2)

RECURSIVE Desc(_, _, _, _, _, _)
RECURSIVE DescDeps(_, _, _, _, _, _, _, _)
(* result: [r |-> "upd", c] | [r |-> "cycle", c] | [r |-> "none", ch];      *)
(* ch is the set of chain keys: the component, and for a pull-based         *)
(* component also the time it is asked for (impl.keyTime)                   *)
ChainKey(impl, cfg, c, tt) == <<c, IF IsTime(cfg, c) \/ ~impl.keyTime THEN 0 ELSE tt>>
Desc(impl, cfg, s, c, ch, tt) ==
  LET key == ChainKey(impl, cfg, c, tt) IN
  IF key \in ch THEN [r |-> "cycle", c |-> c, ch |-> ch]
  ELSE LET T == IF IsTime(cfg, c) THEN NextT(cfg, s, c) ELSE tt
       IN DescDeps(impl, cfg, s, c, key, ch \cup {key}, DrvDeps(impl, cfg, s, c, T, 1, <<>>), 1)
DescDeps(impl, cfg, s, c, key, ch, deps, i) ==
  IF i > Len(deps) THEN
     IF IsTime(cfg, c) THEN [r |-> IF Finished(cfg, s, c) THEN "findep" ELSE "upd", c |-> c, ch |-> ch]
     ELSE [r |-> "none", c |-> c, ch |-> IF impl.popPull THEN ch \ {key} ELSE ch]
  ELSE LET d == deps[i] IN
       IF IsTime(cfg, d.p) THEN Desc(impl, cfg, s, d.p, ch, 0)
       ELSE LET r == Desc(impl, cfg, s, d.p, ch, d.t)
            IN IF r.r = "none" THEN DescDeps(impl, cfg, s, c, key, r.ch, deps, i + 1) ELSE r

(* first component in listing order among the least advanced (stable sort) *)
FirstLeast(cfg, s) ==
  LET L == LeastAdvanced(cfg, s)
      k == SetMin({i \in 1..Len(cfg.order) : cfg.order[i] \in L})
  IN cfg.order[k]

DriverStep(impl, cfg, s) == Desc(impl, cfg, s, FirstLeast(cfg, s), {}, 0)

(* the as-coded driver run to completion from state s: outcome class,     *)
(* final times and the series every consumer received (reference for C05)  *)
RECURSIVE RunImpl(_, _, _, _)
RunImpl(impl, cfg, s, h) ==
  IF ~MayUpdate(cfg, s) THEN [ph |-> "done", time |-> s.time, h |-> h]
  ELSE LET r == DriverStep(impl, cfg, s) IN
       IF r.r = "findep" THEN [ph |-> "err", time |-> s.time, h |-> h]
       ELSE IF r.r # "upd" THEN [ph |-> "circ", time |-> s.time, h |-> h]
       ELSE LET u == EUpdate(cfg, s, r.c) IN
            IF ~u.ok THEN [ph |-> "err", time |-> s.time, h |-> h]
            ELSE RunImpl(impl, cfg, u.s, [h EXCEPT ![r.c] = Append(@, u.log)])

Intended == [compose |-> TRUE, aboveBuf |-> TRUE, popPull |-> TRUE, keyTime |-> TRUE, depmax |-> TRUE]

=============================================================================
