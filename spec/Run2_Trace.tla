---- MODULE Run2_Trace ----
(* C03 for compositions of components with several inputs and outputs whose connect phase needs  *)
(* several rounds (metadata derived from the other slot of a port, data published only after     *)
(* the initial pulls): cfg is a shape of Connect2.tla; when the least fixpoint of its exchange   *)
(* dependencies is complete (StuckSet = {}) the composition is valid and                         *)
(*   connect-error       run() must not fail in connect() (nor anywhere else),                   *)
(*   lifecycle           every component sees initialize, connect+, validate, update*, finalize, *)
(*   not-finalized       ... and ends FINALIZED,                                                 *)
(*   time-monotone       each component's time strictly increases from update to update,         *)
(*   end-not-reached     every component ends at or beyond the end time,                         *)
(*   update-after-end    no update once all components have reached the end time,                *)
(*   served              an update's pull delivers the source's publication for that time.       *)
(* One trace = [cfg, E, life, upd = <<[c, t, toks, err]>>, end = [out, times, status]].          *)
EXTENDS Connect2, Json, IOUtils, TLC
Traces == ndJsonDeserialize(IOEnv.TRACE_FILE)
VARIABLES tid, verdict
At(name, i) == name \o "@" \o ToString(i)
RECURSIVE LifeFrom(_, _, _)
LifeFrom(lf, k, st) ==       \* st: 0 start, 1 after I, 2 after C, 3 after V/U, 4 after F
  IF k > Len(lf) THEN st = 4
  ELSE LET x == lf[k] IN
       CASE st = 0 /\ x = "I" -> LifeFrom(lf, k + 1, 1)
         [] st = 1 /\ x = "C" -> LifeFrom(lf, k + 1, 2)
         [] st = 2 /\ x = "C" -> LifeFrom(lf, k + 1, 2)
         [] st = 2 /\ x = "V" -> LifeFrom(lf, k + 1, 3)
         [] st = 3 /\ x = "U" -> LifeFrom(lf, k + 1, 3)
         [] st = 3 /\ x = "F" -> LifeFrom(lf, k + 1, 4)
         [] OTHER -> FALSE
(* component times before update event i: start offset plus the updates so far *)
RECURSIVE TimeBefore(_, _, _, _)
TimeBefore(cfg, upd, i, c) ==
  IF i = 1 THEN cfg.comps[c].off
  ELSE IF upd[i - 1].c = c THEN upd[i - 1].t ELSE TimeBefore(cfg, upd, i - 1, c)
(* the publication a pull at t gets from source (c, p): the one for t, or the initial one *)
ExpTok(cfg, c, p, t) == 1000 * c + 100 * p + (IF t < cfg.comps[c].off THEN cfg.comps[c].off ELSE t)
(* through DelayFixed(dly): the source's publication for max(t - dly, start of the link) *)
Shifted(pt, t) == IF pt.dly = 0 THEN t ELSE Max2(t - pt.dly, 0)
RECURSIVE Walk(_, _, _)
Walk(t, i, n) ==
  IF i > n THEN "ok"
  ELSE LET cfg == t.cfg  u == t.upd[i]  c == u.c  before == TimeBefore(cfg, t.upd, i, c) IN
       IF \A d \in Comps(cfg) : TimeBefore(cfg, t.upd, i, d) >= t.E THEN At("update-after-end", i)
       ELSE IF u.t <= before THEN At("time-monotone", i)
       ELSE IF u.err # "" THEN At("update-raised", i)
       ELSE IF \E p \in Ports(cfg, c) : P(cfg, c, p).hasin /\ ~P(cfg, c, p).st /\
                  u.toks[p] # ExpTok(cfg, P(cfg, c, p).src, P(cfg, c, p).sport, Shifted(P(cfg, c, p), u.t)) THEN At("served", i)
       ELSE Walk(t, i + 1, n)
Verdict(t) ==
  LET cfg == t.cfg  n == Len(t.upd) IN
  IF StuckSet(cfg) # {} THEN (IF t.end.out \in {"ok"} THEN At("cycle-not-reported", 1) ELSE "ok")
  ELSE IF t.end.out # "ok" THEN At("connect-error", 1)
  ELSE LET w == Walk(t, 1, n) IN
       IF w # "ok" THEN w
       ELSE IF \E c \in Comps(cfg) : ~LifeFrom(t.life[c], 1, 0) THEN At("lifecycle", n + 1)
       ELSE IF \E c \in Comps(cfg) : t.end.status[c] # "FINALIZED" THEN At("not-finalized", n + 1)
       ELSE IF \E c \in Comps(cfg) : t.end.times[c] < t.E THEN At("end-not-reached", n + 1)
       ELSE "ok"
TInit == tid \in 1..Len(Traces) /\ verdict = Verdict(Traces[tid])
TNext == FALSE /\ UNCHANGED <<tid, verdict>>
Collect == IF verdict = "ok" THEN TLCSet(3, TLCGet(3) + 1) ELSE TLCSet(2, TLCGet(2) \cup {<<tid, verdict>>})
ASSUME TLCSet(2, {}) /\ TLCSet(3, 0)
Report == /\ PrintT(<<"ACCEPTED", TLCGet(3)>>) /\ PrintT(<<"TOTAL", Len(Traces)>>)
          /\ \A v \in TLCGet(2) : PrintT(<<"VERDICT", v[1], v[2]>>)
====
