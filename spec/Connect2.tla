------------------------------- MODULE Connect2 -------------------------------
(* The connect phase for components with several inputs and outputs.          *)
(* cfg.comps[c] = [ports, off]; ports[p] = [hasin, src, sport, inown, pull,  *)
(* hasout, outown, data]: port p bundles an optional input "In<p>" (fed by    *)
(* output sport of component src) and an optional output "Out<p>"; an input   *)
(* without own metadata takes it from the output of the same port             *)
(* (FromOutput), an output without own metadata from the input of the same    *)
(* port (FromInput).  data: "imm" | "pulled" (once ALL pulled inputs of the    *)
(* component have their data: ConnectHelper.all_data_pulled) | "ininfo"        *)
(* (once the input of the same port has its metadata).                         *)
(* The order of attempts inside one Component.connect call is specified for   *)
(* single-port components in ConnectOps.Call and model checked there; here    *)
(* the result of the whole phase is specified: the least fixpoint of the      *)
(* exchange dependencies over all ports, and what every single call may do.   *)
EXTENDS FinamBase

Comps(cfg) == 1..Len(cfg.comps)
Ports(cfg, c) == 1..Len(cfg.comps[c].ports)
P(cfg, c, p) == cfg.comps[c].ports[p]
Slots(cfg) == UNION {{<<c, p>> : p \in Ports(cfg, c)} : c \in Comps(cfg)}
Targets(cfg, c, p) == {x \in Slots(cfg) : P(cfg, x[1], x[2]).hasin /\ P(cfg, x[1], x[2]).src = c /\ P(cfg, x[1], x[2]).sport = p}
FlagNames == <<"inX", "inD", "outP", "outX", "outD">>
Items(cfg) == {<<x[1], x[2], f>> : x \in Slots(cfg), f \in {"inX", "inD", "outP", "outX", "outD"}}

Derivable(cfg, F, it) ==
  LET c == it[1] p == it[2] k == P(cfg, c, p) IN
  CASE it[3] = "outP" -> k.hasout /\ (k.outown \/ (k.hasin /\ <<c, p, "inX">> \in F))
    [] it[3] = "inX"  -> k.hasin /\ (k.inown \/ (k.hasout /\ <<c, p, "outX">> \in F)) /\ <<k.src, k.sport, "outP">> \in F
    [] it[3] = "outX" -> k.hasout /\ <<c, p, "outP">> \in F /\ \A d \in Targets(cfg, c, p) : <<d[1], d[2], "inX">> \in F
    [] it[3] = "outD" -> k.hasout /\ <<c, p, "outP">> \in F /\ <<c, p, "outX">> \in F /\
                         (CASE k.data = "imm" -> TRUE
                            [] k.data = "pulled" -> \A q \in Ports(cfg, c) : (P(cfg, c, q).hasin /\ P(cfg, c, q).pull) => <<c, q, "inD">> \in F
                            [] k.data = "ininfo" -> ~k.hasin \/ <<c, p, "inX">> \in F)
    [] it[3] = "inD"  -> k.hasin /\ k.pull /\ <<c, p, "inX">> \in F /\ <<k.src, k.sport, "outD">> \in F
RECURSIVE LfpFrom(_, _, _)
LfpFrom(cfg, F, n) == IF n = 0 THEN F ELSE LfpFrom(cfg, F \cup {it \in Items(cfg) : Derivable(cfg, F, it)}, n - 1)
LFP(cfg) == LfpFrom(cfg, {}, Cardinality(Items(cfg)) + 1)

NeededPort(cfg, c, p) ==
  LET k == P(cfg, c, p) IN
  (IF k.hasin THEN {<<c, p, "inX">>} ELSE {}) \cup (IF k.hasin /\ k.pull THEN {<<c, p, "inD">>} ELSE {}) \cup
  (IF k.hasout THEN {<<c, p, "outP">>, <<c, p, "outX">>, <<c, p, "outD">>} ELSE {})
Needed(cfg, c) == UNION {NeededPort(cfg, c, p) : p \in Ports(cfg, c)}
(* the components that can not complete: a component is stuck as soon as ONE of its slots is *)
StuckOf(cfg, L) == {c \in Comps(cfg) : ~(Needed(cfg, c) \subseteq L)}
StuckSet(cfg) == LET L == LFP(cfg) IN StuckOf(cfg, L)
InitialPubs(cfg, c) == IF cfg.comps[c].off > 0 THEN <<0, cfg.comps[c].off>> ELSE <<0>>
PortPubs(cfg, c, p) == IF P(cfg, c, p).st THEN <<-1>> ELSE InitialPubs(cfg, c)
InitTok(cfg, c, p) == 1000 * c + 100 * p + cfg.comps[c].off

(* ----- case space ----- *)
Pt(hasin, src, sport, inown, pull, hasout, outown, data) ==
  [hasin |-> hasin, src |-> src, sport |-> sport, inown |-> inown, pull |-> pull, hasout |-> hasout, outown |-> outown, data |-> data, st |-> FALSE, dly |-> 0]
(* st: the slots of the port are static (one publication without time, read by static inputs) *)
Static(pt) == [pt EXCEPT !.st = TRUE]
(* dly: the input is fed through a DelayFixed adapter of that many days (breaks the run-phase dependency) *)
Delayed(pt) == [pt EXCEPT !.dly = 1]
Cp(ports, off) == [ports |-> ports, off |-> off]
Cf(comps, order, fam) == [comps |-> comps, order |-> order, fam |-> fam]
Datas == {"imm", "pulled", "ininfo"}
OutOnly == Pt(FALSE, 0, 0, TRUE, FALSE, TRUE, TRUE, "imm")
InOnly(src, sport, pull) == Pt(TRUE, src, sport, TRUE, pull, FALSE, TRUE, "imm")
Mid(src, sport) == {Pt(TRUE, src, sport, io, pl, TRUE, oo, d) : io \in BOOLEAN, pl \in BOOLEAN, oo \in BOOLEAN, d \in Datas}
Perm3 == {<<1, 2, 3>>, <<3, 2, 1>>, <<2, 3, 1>>, <<2, 1, 3>>}
(* two parallel lanes through a two-port component in the middle *)
Lanes(u) == {Cf(<<Cp(<<OutOnly, OutOnly>>, o1), Cp(<<a, b>>, o2), Cp(<<InOnly(2, 1, p1), InOnly(2, 2, p2)>>, 0)>>, ord, "lanes") :
               a \in Mid(1, 1), b \in {x \in Mid(1, 2) : x.data # "ininfo"}, o1 \in {0, 1}, o2 \in {0, 1}, p1 \in BOOLEAN, p2 \in {TRUE}, ord \in {<<1, 2, 3>>, <<3, 2, 1>>}}
(* two components feeding each other through different ports (no cycle between items unless both sides wait) *)
Cross(u) == {Cf(<<Cp(<<a1, a2>>, 0), Cp(<<b1, b2>>, ob)>>, ord, "cross") :
               a1 \in {Pt(FALSE, 0, 0, TRUE, FALSE, TRUE, TRUE, d) : d \in {"imm", "pulled"}},
               a2 \in {InOnly(2, 2, pl) : pl \in BOOLEAN},
               b1 \in {Pt(TRUE, 1, 1, io, pl, FALSE, TRUE, "imm") : io \in {TRUE}, pl \in BOOLEAN},
               b2 \in {Pt(FALSE, 0, 0, TRUE, FALSE, TRUE, TRUE, d) : d \in {"imm", "pulled"}},
               ob \in {0, 1}, ord \in {<<1, 2>>, <<2, 1>>}}
(* one lane can complete, the other is a ring of derived metadata or of initial pulls *)
HalfStuck(u) == {Cf(<<Cp(<<OutOnly, a>>, 0), Cp(<<InOnly(1, 1, pl), b>>, 0)>>, ord, "halfstuck") :
                   a \in Mid(2, 2), b \in Mid(1, 2), pl \in BOOLEAN, ord \in {<<1, 2>>, <<2, 1>>}}
(* a static output read by static inputs of two consumers, next to an ordinary lane; one consumer may sit in a ring *)
StaticLane(u) == {Cf(<<Cp(<<Static(OutOnly)>>, 0), Cp(<<Static(InOnly(1, 1, p1)), a>>, o2), Cp(<<Static(InOnly(1, 1, p2)), b>>, 0)>>, ord, "staticlane") :
                    p1 \in BOOLEAN, p2 \in BOOLEAN, a \in Mid(3, 2), b \in {x \in Mid(2, 2) : x.data # "ininfo" /\ x.inown}, o2 \in {0, 1},
                    ord \in {<<1, 2, 3>>, <<3, 2, 1>>, <<2, 1, 3>>}}
(* feedback loop: M takes its state's metadata from the forcing input and reads F's output through a   *)
(* delay adapter; F derives its output from M's state.  A ring of components, no ring of exchange items   *)
(* unless both sides wait for initial data.                                                              *)
Perm3All == {<<1, 2, 3>>, <<1, 3, 2>>, <<2, 1, 3>>, <<2, 3, 1>>, <<3, 1, 2>>, <<3, 2, 1>>}
Feedback(u) == {Cf(<<Cp(<<OutOnly>>, o1), Cp(<<m1, m2>>, 0), Cp(<<f1>>, 0)>>, ord, "feedback") :
                  m1 \in {Pt(TRUE, 1, 1, TRUE, pl, TRUE, oo, d) : pl \in BOOLEAN, oo \in BOOLEAN, d \in {"imm", "ininfo"}},
                  m2 \in {Delayed(InOnly(3, 1, pl)) : pl \in BOOLEAN},
                  f1 \in {Pt(TRUE, 2, 1, io, pl, TRUE, oo, d) : io \in BOOLEAN, pl \in BOOLEAN, oo \in BOOLEAN, d \in Datas},
                  o1 \in {0, 1}, ord \in Perm3All}
(* the metadata chain passes through R twice: S -> R.b => R.Outb -> T => T.Out -> R.a => R.Outa -> sink; *)
(* the two derived outputs of R are declared in either order (sw)                                       *)
Perm4 == {<<1, 2, 3, 4>>, <<4, 3, 2, 1>>, <<2, 4, 1, 3>>, <<3, 1, 4, 2>>}
Twist(u) == {Cf(<<Cp(<<OutOnly>>, 0),
                  Cp(IF sw THEN <<Pt(TRUE, 1, 1, TRUE, pl2, TRUE, FALSE, "imm"), Pt(TRUE, 3, 1, TRUE, pl1, TRUE, FALSE, d1)>>
                           ELSE <<Pt(TRUE, 3, 1, TRUE, pl1, TRUE, FALSE, d1), Pt(TRUE, 1, 1, TRUE, pl2, TRUE, FALSE, "imm")>>, 0),
                  Cp(<<Pt(TRUE, 2, IF sw THEN 1 ELSE 2, TRUE, pl3, TRUE, oo3, d3)>>, 0),
                  Cp(<<InOnly(2, IF sw THEN 2 ELSE 1, pl4)>>, 0)>>, ord, "twist") :
               sw \in BOOLEAN, pl1 \in BOOLEAN, pl2 \in BOOLEAN, d1 \in {"imm", "ininfo"}, pl3 \in BOOLEAN, oo3 \in BOOLEAN,
               d3 \in Datas, pl4 \in BOOLEAN, ord \in Perm4}
CSpace(f) == CASE f = "twist" -> Twist(0) [] f = "feedback" -> Feedback(0) [] f = "lanes" -> Lanes(0) [] f = "cross" -> Cross(0) [] f = "halfstuck" -> HalfStuck(0) [] f = "staticlane" -> StaticLane(0)

(* theorems on the case space (evaluated by Connect2Emit) *)
ThLfp(cfg) ==
  LET L == LFP(cfg) IN
  /\ (StuckOf(cfg, L) = {}) <=> (UNION {Needed(cfg, c) : c \in Comps(cfg)} \subseteq L)
  /\ \A it \in L : Derivable(cfg, L, it)                    \* the fixpoint is self-supporting
  /\ \A it \in Items(cfg) \ L : ~Derivable(cfg, L, it)      \* ... and closed
=============================================================================
