---------------------------- MODULE MetaNegOps -----------------------------
(* Operators of the metadata negotiation (no variables): shared by the state *)
(* machine MetaNeg.tla and by the trace monitor MetaNeg_Trace.tla.          *)
EXTENDS Meta, Sequences, FiniteSets

AllOf(c) == DOMAIN c.cs
St0(c) == [out |-> c.po, done |-> {}, inp |-> [k \in AllOf(c) |-> c.cs[k]], res |-> "run", repushed |-> FALSE]

(* effect of one exchange (Input.exchange_info -> Output.get_info of consumer k) *)
EExch(st, c, k) ==
  LET r == Exchange(st.out, c.cs[k]) IN
  IF r.res # "ok" THEN [st EXCEPT !.out = r.out, !.res = r.res]
  ELSE [st EXCEPT !.out = r.out, !.done = @ \cup {k}, !.inp[k] = r.inp,
                  !.res = IF st.done \cup {k} = AllOf(c) THEN "ok" ELSE "run"]

(* negative control: an output info given again replaces the negotiated one *)
ERepush(st, c) == IF st.done # AllOf(c) THEN [st EXCEPT !.out = c.po, !.repushed = TRUE] ELSE st

Complete(i) == i.time # "none" /\ i.grid # "none" /\ i.units # "none"
LinkAgrees(out, inp, ci) ==
  /\ Complete(inp) /\ Complete(out)
  /\ SameLocations(inp.grid, out.grid)
  /\ Dim(inp.units) = Dim(out.units)
  /\ ~MaskConflict(out, ci)
  /\ (ci.grid = "none" => inp.grid = out.grid)
  /\ (ci.units = "none" => inp.units = out.units)
  /\ (ci.grid # "none" => inp.grid = ci.grid) /\ (ci.units # "none" => inp.units = ci.units)
PairConflict(a, b) == GridConflict(a, b) \/ UnitsConflict(a, b)
=============================================================================
