-------------------------------- MODULE Units --------------------------------
(* C17: a catalogue of SI, CF / UDUNITS-style and compound units as          *)
(*   dim  exponents of (length, time, mass, temperature)                     *)
(*   sc   scale to the coherent SI unit as exponents of (2, 3, 5, pi):       *)
(*        exact, no overflow (86400 s = 2^7 3^3 5^2, degree = pi/180, ...)   *)
(*   off  "" or the temperature scale with an offset ("degC", "degF")        *)
(* The table is transcribed from the SI / UDUNITS definitions and is part of *)
(* the trusted base.                                                         *)
EXTENDS FinamBase, TLC

U(n, d, s, o) == [name |-> n, dim |-> d, sc |-> s, off |-> o]
Z4 == <<0, 0, 0, 0>>
P10(k) == <<k, 0, k, 0>>                      \* 10^k
VAdd(a, b) == [i \in 1..4 |-> a[i] + b[i]]
VSub(a, b) == [i \in 1..4 |-> a[i] - b[i]]
Day == <<7, 3, 2, 0>>                         \* 86400
Hour == <<4, 2, 2, 0>>                        \* 3600
Minute == <<2, 1, 1, 0>>                      \* 60
L == <<1, 0, 0, 0>>  T == <<0, 1, 0, 0>>  M == <<0, 0, 1, 0>>  Th == <<0, 0, 0, 1>>
Dm(l, t, m, th) == <<l, t, m, th>>

Catalogue == <<
  U("m", Dm(1,0,0,0), Z4, ""), U("meter", Dm(1,0,0,0), Z4, ""), U("gpm", Dm(1,0,0,0), Z4, ""),
  U("km", Dm(1,0,0,0), P10(3), ""), U("cm", Dm(1,0,0,0), P10(-2), ""), U("mm", Dm(1,0,0,0), P10(-3), ""),
  U("s", Dm(0,1,0,0), Z4, ""), U("min", Dm(0,1,0,0), Minute, ""), U("h", Dm(0,1,0,0), Hour, ""),
  U("hour", Dm(0,1,0,0), Hour, ""), U("d", Dm(0,1,0,0), Day, ""), U("day", Dm(0,1,0,0), Day, ""),
  U("kg", Dm(0,0,1,0), Z4, ""), U("g", Dm(0,0,1,0), P10(-3), ""),
  U("K", Dm(0,0,0,1), Z4, ""), U("degC", Dm(0,0,0,1), Z4, "degC"), U("degF", Dm(0,0,0,1), <<0, -2, 1, 0>>, "degF"),
  U("m/s", Dm(1,-1,0,0), Z4, ""), U("m s-1", Dm(1,-1,0,0), Z4, ""),
  U("km/h", Dm(1,-1,0,0), VSub(P10(3), Hour), ""), U("mm/d", Dm(1,-1,0,0), VSub(P10(-3), Day), ""),
  U("mm/h", Dm(1,-1,0,0), VSub(P10(-3), Hour), ""), U("mm d-1", Dm(1,-1,0,0), VSub(P10(-3), Day), ""),
  U("m2", Dm(2,0,0,0), Z4, ""), U("km2", Dm(2,0,0,0), P10(6), ""), U("ha", Dm(2,0,0,0), P10(4), ""),
  U("m3", Dm(3,0,0,0), Z4, ""), U("L", Dm(3,0,0,0), P10(-3), ""),
  U("m3/s", Dm(3,-1,0,0), Z4, ""), U("m3 s-1", Dm(3,-1,0,0), Z4, ""), U("L/s", Dm(3,-1,0,0), P10(-3), ""),
  U("kg m-2 s-1", Dm(-2,-1,1,0), Z4, ""), U("kg/m2/s", Dm(-2,-1,1,0), Z4, ""), U("g m-2 d-1", Dm(-2,-1,1,0), VSub(P10(-3), Day), ""),
  U("Pa", Dm(-1,-2,1,0), Z4, ""), U("hPa", Dm(-1,-2,1,0), P10(2), ""), U("kPa", Dm(-1,-2,1,0), P10(3), ""),
  U("bar", Dm(-1,-2,1,0), P10(5), ""),
  U("J", Dm(2,-2,1,0), Z4, ""), U("W", Dm(2,-3,1,0), Z4, ""), U("W m-2", Dm(0,-3,1,0), Z4, ""), U("W/m2", Dm(0,-3,1,0), Z4, ""),
  U("", Dm(0,0,0,0), Z4, ""), U("1", Dm(0,0,0,0), Z4, ""), U("%", Dm(0,0,0,0), P10(-2), ""),
  U("percent", Dm(0,0,0,0), P10(-2), ""), U("radian", Dm(0,0,0,0), Z4, ""),
  U("degree", Dm(0,0,0,0), <<-2, -2, -1, 1>>, ""), U("degrees_north", Dm(0,0,0,0), <<-2, -2, -1, 1>>, ""),
  U("J/s", Dm(2,-3,1,0), Z4, ""), U("mbar", Dm(-1,-2,1,0), P10(2), ""), U("L/m2", Dm(1,0,0,0), P10(-3), ""),
  U("N/m2", Dm(-1,-2,1,0), Z4, ""), U("kg/m3", Dm(-3,0,1,0), Z4, ""), U("g/L", Dm(-3,0,1,0), Z4, "")
>>
N == Len(Catalogue)

Compatible(a, b) == a.dim = b.dim
(* exact affine map value_in_a -> value_in_b for temperatures: v*s + t with rationals *)
TempMap(a, b) ==       \* to kelvin: K: v; degC: v + 27315/100; degF: (v + 45967/100) * 5/9
  LET toK(u, v) == CASE u.off = "degC" -> RAdd(v, <<27315, 100>>)
                     [] u.off = "degF" -> RMul(RAdd(v, <<45967, 100>>), <<5, 9>>)
                     [] OTHER -> v
      fromK(u, k) == CASE u.off = "degC" -> RSub(k, <<27315, 100>>)
                       [] u.off = "degF" -> RSub(RMul(k, <<9, 5>>), <<45967, 100>>)
                       [] OTHER -> k
  IN [v \in {0, 1, 100} |-> fromK(b, toK(a, RInt(v)))]
HasOffset(a, b) == a.off # "" \/ b.off # ""
Factor(a, b) == VSub(a.sc, b.sc)                 \* exponents of (2, 3, 5, pi)
(* equivalent: converting 1 gives 1 *)
Equivalent(a, b) ==
  Compatible(a, b) /\ (IF HasOffset(a, b) THEN TempMap(a, b)[1] = <<1, 1>> ELSE Factor(a, b) = Z4)

(* relation laws *)
ASSUME \A i \in 1..N : Compatible(Catalogue[i], Catalogue[i]) /\ Equivalent(Catalogue[i], Catalogue[i])
ASSUME \A i \in 1..N, j \in 1..N :
   /\ Compatible(Catalogue[i], Catalogue[j]) = Compatible(Catalogue[j], Catalogue[i])
   /\ Equivalent(Catalogue[i], Catalogue[j]) = Equivalent(Catalogue[j], Catalogue[i])
   /\ Equivalent(Catalogue[i], Catalogue[j]) => Compatible(Catalogue[i], Catalogue[j])
ASSUME \A i \in 1..N, j \in 1..N, k \in 1..N :
   (Equivalent(Catalogue[i], Catalogue[j]) /\ Equivalent(Catalogue[j], Catalogue[k])) => Equivalent(Catalogue[i], Catalogue[k])
ASSUME \A i \in 1..N, j \in 1..N, k \in 1..N :
   (Compatible(Catalogue[i], Catalogue[j]) /\ Compatible(Catalogue[j], Catalogue[k]) /\ ~HasOffset(Catalogue[i], Catalogue[k]))
      => VAdd(Factor(Catalogue[i], Catalogue[j]), Factor(Catalogue[j], Catalogue[k])) = Factor(Catalogue[i], Catalogue[k])

Pairs(u) == {[what |-> "pair", a |-> i, b |-> j, an |-> Catalogue[i].name, bn |-> Catalogue[j].name] : i \in 1..N, j \in 1..N}
(* query sequences: every order of a few unit pairs, answers must not depend on the order *)
SeqUnits == {1, 4, 6, 18, 20, 40, 44, 46, 50, 52}      \* m, km, mm, m/s, km/h, W, "", %, J/s, L/m2
QPairs == {<<i, j>> : i \in SeqUnits, j \in SeqUnits}
Seqs(u) == {[what |-> "seq", qs |-> <<p, q, r, <<q[2], q[1]>>, p>>, names |-> [k \in 1..N |-> Catalogue[k].name]] :
           p \in QPairs, q \in QPairs, r \in {<<1, 4>>, <<6, 52>>, <<18, 20>>, <<44, 46>>, <<40, 50>>}}
=============================================================================
