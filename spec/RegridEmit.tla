---- MODULE RegridEmit ----
EXTENDS Regrid, Json, IOUtils
WithField(S) == {[c |-> c, field |-> SrcField(c), smask |-> [p \in 1..NS(c) |-> SMask(c, p)],
                  mesh |-> IF c.su = "umixed" \/ c.tu = "umixed" THEN [pts |-> MeshPts, cells |-> MeshCells] ELSE [pts |-> <<>>, cells |-> <<>>],
                  tmask |-> [p \in 1..NT(c) |-> TMask(c, p)]] : c \in S}
Out == CASE IOEnv.WHAT = "nearest" -> SetToSeq(WithField(NearestCases(0)))
         [] IOEnv.WHAT = "identity" -> SetToSeq(WithField(IdCases(0)))
         [] IOEnv.WHAT = "mesh" -> SetToSeq(WithField(MeshCases(0) \cup MeshTargetCases(0) \cup {c \in Near3D(0) : c.su \in Hows(c.src) /\ c.tu \in Hows(c.dst) /\ Live(c) # {}}))
         [] IOEnv.WHAT = "linear" -> SetToSeq(WithField(LinearCases(0)))
(* between layouts of one grid nearest-neighbour regridding is the identity (theorem on the spec) *)
ASSUME IOEnv.WHAT = "identity" =>
   \A c \in {x \in IdCases(0) : D(x.src) = 2} : \A p \in 1..N(c.dst) : NearestVals(c, Locs(c.dst, "struct")[p]) = {Tok(Locs(c.dst, "struct")[p])}
ASSUME ndJsonSerialize(IOEnv.OUT_FILE, Out)
VARIABLE x
Init == x = 0
Next == UNCHANGED x
====
