---- MODULE PayloadEmit ----
(* evaluates the theorems (ASSUME) of Payload.tla and writes the case space *)
EXTENDS Payload, Json, IOUtils
ASSUME ndJsonSerialize(IOEnv.OUT_FILE, SetToSeq(Cases))
VARIABLE x
Init == x = 0
Next == UNCHANGED x
====
