---- MODULE PayloadEmit ----
(* evaluates the theorems (ASSUME) of Payload.tla and writes the case space *)
EXTENDS Payload, Json, IOUtils
(* WHAT = "fixedmask": only the cases in which the metadata carries a fixed mask or the payload is masked (C18) *)
(* WHAT = "static": only the static links (C20: a static input serves what it fetched first) *)
Sel == IF "WHAT" \in DOMAIN IOEnv /\ IOEnv.WHAT = "fixedmask" THEN {c \in Cases : c.om = "fixed" \/ c.form = "masked"}
       ELSE IF "WHAT" \in DOMAIN IOEnv /\ IOEnv.WHAT = "static" THEN {c \in Cases : c.st}
       ELSE Cases
ASSUME ndJsonSerialize(IOEnv.OUT_FILE, SetToSeq(Sel))
VARIABLE x
Init == x = 0
Next == UNCHANGED x
====
