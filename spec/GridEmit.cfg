INIT Init
NEXT Next
