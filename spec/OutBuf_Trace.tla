---------------------------- MODULE OutBuf_Trace ----------------------------
(* Validation of operation histories executed on a real finam Output       *)
(* (harness/fv/outbuf_run.py) against OutBufOps.  One trace per line:      *)
(* [cfg, ev], ev[i] = [op, k, t, id, res, tok, ret, sp, files, stray]      *)
EXTENDS OutBufOps, Json, IOUtils, TLC

Traces == ndJsonDeserialize(IOEnv.TRACE_FILE)
VARIABLES tid, i, st, verdict
vars == <<tid, i, st, verdict>>
Tr == Traces[tid]
Fail(c, k) == c \o "@" \o ToString(k)
(* policy clauses (which entries are kept as files, how many files exist, what finalize leaves *)
(* in memory) say more than the properties do: they are evaluated only with FV_STRICT=1        *)
Strict == "FV_STRICT" \in DOMAIN IOEnv /\ IOEnv.FV_STRICT = "1"

SnapVerdict(s2, e, k) ==
  IF e.ret # Times(s2.pubs) THEN Fail("retained", k)
  ELSE IF Strict /\ e.sp # [j \in 1..Len(s2.pubs) |-> s2.pubs[j].sp] THEN Fail("spill-threshold", k)
  ELSE IF Strict /\ e.files # s2.files THEN Fail("files-accounting", k)
  \* every retained entry that is a file is one file; nothing else lies in the location
  ELSE IF Strict /\ e.files # Cardinality({j \in 1..Len(e.sp) : e.sp[j]}) THEN Fail("files-accounting", k)
  ELSE IF e.stray # 0 THEN Fail("files-in-location", k)
  ELSE "ok"

EvVerdict(cfg, s, e, k) ==
  IF e.op = "push" THEN
     LET r == Push(cfg, s, e.t, e.id) IN
     IF r.err # "" THEN (IF e.res = "err:" \o r.err THEN SnapVerdict(r.st, e, k) ELSE Fail("static-once", k))
     ELSE IF e.res # "ok" THEN Fail("push-refused", k) ELSE SnapVerdict(r.st, e, k)
  ELSE IF e.op = "get" THEN
     LET r == Get(cfg, s, e.k, e.t) IN
     IF r.err # "" THEN (IF e.res = "err:" \o r.err THEN SnapVerdict(r.st, e, k) ELSE Fail("range", k))
     ELSE IF e.res # "ok" THEN Fail("served", k)
     ELSE IF ~(e.tok \in r.ids) THEN
          (IF cfg.static THEN Fail("static-any-time", k) ELSE IF \E j \in 1..Len(s.pubs) : s.pubs[j].id \in r.ids /\ s.pubs[j].sp
           THEN Fail("spill-transparent", k) ELSE Fail("nearest", k))
     ELSE IF ~cfg.static /\ ~(e.tok \in ServeFull(s, ReqT(cfg, s, e.k, e.t))) THEN Fail("as-unlimited", k)
     ELSE SnapVerdict(r.st, e, k)
  ELSE
     LET s2 == Finalize(s) IN
     IF e.res # "ok" THEN Fail("finalize-raised", k)
     ELSE IF e.files # 0 \/ e.stray # 0 THEN Fail("no-files-after-finalize", k)
     ELSE IF Strict /\ e.ret # <<>> THEN Fail("finalize-clears", k)
     ELSE "ok"

Effect(cfg, s, e) ==
  IF e.op = "push" THEN Push(cfg, s, e.t, e.id).st
  ELSE IF e.op = "get" THEN Get(cfg, s, e.k, e.t).st
  ELSE Finalize(s)

Init == tid \in 1..Len(Traces) /\ i = 1 /\ st = St0(Traces[tid].cfg) /\ verdict = "ok"
Next ==
  /\ i <= Len(Tr.ev)
  /\ i' = i + 1 /\ UNCHANGED tid
  /\ IF verdict # "ok" THEN UNCHANGED <<st, verdict>>
     ELSE /\ verdict' = EvVerdict(Tr.cfg, st, Tr.ev[i], i)
          /\ st' = Effect(Tr.cfg, st, Tr.ev[i])
Spec == Init /\ [][Next]_vars

Done == i = Len(Tr.ev) + 1
Collect == Done => IF verdict = "ok" THEN TLCSet(3, TLCGet(3) + 1)
                   ELSE TLCSet(2, TLCGet(2) \cup {<<tid, verdict>>})
ASSUME TLCSet(2, {}) /\ TLCSet(3, 0)
Report == /\ PrintT(<<"ACCEPTED", TLCGet(3)>>)
          /\ PrintT(<<"TOTAL", Len(Traces)>>)
          /\ \A v \in TLCGet(2) : PrintT(<<"VERDICT", v[1], v[2]>>)
=============================================================================
