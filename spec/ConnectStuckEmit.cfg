INIT Init
NEXT Next
