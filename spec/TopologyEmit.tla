---- MODULE TopologyEmit ----
EXTENDS Topology, Json, IOUtils
(* DEPTH=2 (quick): chains of up to 2 adapters; DEPTH=3 (thorough): single chains of up to 3      *)
(* adapters, branched shapes as for 2 plus two extra branches on chains of up to 2 adapters       *)
Out == IF IOEnv.DEPTH = "3" THEN Single(3) \cup Branched(2) \cup Branched2(2) \cup BranchedOut(2) ELSE Cases(2)
ASSUME ndJsonSerialize(IOEnv.OUT_FILE, SetToSeq(Out))
VARIABLE x
Init == x = 0
Next == UNCHANGED x
====
