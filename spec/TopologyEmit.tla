---- MODULE TopologyEmit ----
EXTENDS Topology, Json, IOUtils
N == IF IOEnv.DEPTH = "3" THEN 3 ELSE 2
ASSUME ndJsonSerialize(IOEnv.OUT_FILE, SetToSeq(Cases(N)))
VARIABLE x
Init == x = 0
Next == UNCHANGED x
====
