---- MODULE Payload_Trace ----
(* one record per executed case: [case, obs]; obs = [res, shape, num, den, units, masked, alias] *)
EXTENDS Payload, Json, IOUtils
Traces == ndJsonDeserialize(IOEnv.TRACE_FILE)
VARIABLES tid, verdict
Verdict(t) ==
  LET e == Expect(t.case) o == t.obs IN
  \* refused: the statement does not name the error class (data or metadata error)
  IF e.res # "ok" THEN (IF o.res \in {"err:FinamDataError", "err:FinamMetaDataError"} THEN "ok" ELSE "payload-refusal@1")
  ELSE IF o.res # "ok" THEN "payload-accepted@1"
  ELSE IF o.shape # e.shape THEN "payload-shape@1"
  ELSE IF <<o.num, o.den>> # e.val THEN "payload-value@1"
  ELSE IF o.units # e.units THEN "payload-units@1"
  ELSE IF o.masked # e.masked THEN "payload-mask@1"
  ELSE IF ~(o.alias \in {"err:FinamStaticDataError", "err:FinamDataError", "err:FinamMetaDataError"}) THEN "alias-refused@1"
  ELSE "ok"
Init == tid \in 1..Len(Traces) /\ verdict = Verdict(Traces[tid])
Next == FALSE /\ UNCHANGED <<tid, verdict>>
Spec == Init /\ [][Next]_<<tid, verdict>>
Collect == IF verdict = "ok" THEN TLCSet(3, TLCGet(3) + 1) ELSE TLCSet(2, TLCGet(2) \cup {<<tid, verdict>>})
ASSUME TLCSet(2, {}) /\ TLCSet(3, 0)
Report == /\ PrintT(<<"ACCEPTED", TLCGet(3)>>) /\ PrintT(<<"TOTAL", Len(Traces)>>)
          /\ \A v \in TLCGet(2) : PrintT(<<"VERDICT", v[1], v[2]>>)
====
