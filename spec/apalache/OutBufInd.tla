----------------------------- MODULE OutBufInd -----------------------------
(* Unbounded-time argument for C09 ("history is never dropped while it is   *)
(* still needed") on a set-based abstraction of OutBufOps: publication      *)
(* times are arbitrary integers, the history is a set of times (it is        *)
(* strictly increasing), three registered end points.                        *)
(*   full  all publication times so far (ghost)                              *)
(*   kept  the retained ones                                                 *)
(*   last  last served request per end point, -1 = never                     *)
(* Eviction as in Output._clear_data / OutBufOps.EvictPubs: once every end   *)
(* point has pulled, drop every entry older than the newest entry that is    *)
(* <= the smallest last request.                                             *)
(* IndInv is inductive (checked by Apalache for arbitrary integer times and  *)
(* histories of up to 6 entries: Init => IndInv, IndInv /\ Next => IndInv')  *)
(* and implies Needed: whatever an end point may still ask for (t >= its    *)
(* last request) has both its neighbours in the full history retained, so it *)
(* is served exactly as with an unlimited history.                           *)
EXTENDS Integers, FiniteSets, Apalache

VARIABLES
  \* @type: Set(Int);
  full,
  \* @type: Set(Int);
  kept,
  \* @type: Int -> Int;
  last

EP == {1, 2, 3}

\* @type: (Set(Int), Int) => Set(Int);
UpFrom(S, m) == {a \in S : a >= m}
\* the newest entry of S that is <= t (S contains one)
\* @type: (Set(Int), Int) => Int;
GreatestLE(S, t) == CHOOSE a \in S : a <= t /\ \A b \in S : b <= t => b <= a

Init == full = {} /\ kept = {} /\ last = [x \in EP |-> -1]

Publish ==
  \E t \in Int :
    /\ t >= 0 /\ \A a \in full : a < t
    /\ full' = full \cup {t} /\ kept' = kept \cup {t} /\ UNCHANGED last

\* a pull by end point x at time t: times requested by one end point never decrease
Pull ==
  \E x \in EP, t \in Int :
    /\ kept # {} /\ t >= last[x] /\ t >= 0
    /\ \E a \in kept : a <= t            \* in range (the property shows this never fails for t >= last[x] >= first)
    /\ \E a \in kept : a >= t
    /\ last' = [last EXCEPT ![x] = t]
    /\ LET l2 == [last EXCEPT ![x] = t] IN
       IF \E y \in EP : l2[y] = -1 THEN kept' = kept
       ELSE LET tmin == CHOOSE m \in {l2[y] : y \in EP} : \A y \in EP : m <= l2[y]
            IN kept' = UpFrom(kept, GreatestLE(kept, tmin))
    /\ UNCHANGED full

Next == Publish \/ Pull

TypeOK == /\ last \in [EP -> Int] /\ \A x \in EP : last[x] >= -1
          /\ \A a \in full : a >= 0
(* retained = an upper segment of the full history, containing, for every end point that  *)
(* has pulled, an entry at or before its last request; nothing is dropped before all pulled *)
IndInv ==
  /\ TypeOK
  /\ kept \subseteq full
  /\ \A a \in full, b \in kept : a >= b => a \in kept
  /\ (full # {} => kept # {})
  /\ ((\E x \in EP : last[x] = -1) => kept = full)
  /\ \A x \in EP : last[x] # -1 => \E a \in kept : a <= last[x]
  /\ \A x \in EP : last[x] # -1 => \E a \in full : a >= last[x]

(* C09: for every end point and every time it may still request, the neighbours of that time *)
(* in the full history are retained                                                         *)
Needed ==
  \A x \in EP : \A a \in full :
     (last[x] # -1 /\ \E c \in full : (c <= last[x] /\ a >= c /\ \A d \in full : d <= last[x] => d <= c)) => a \in kept

(* for the inductive step: an arbitrary state satisfying IndInv *)
IndInit ==
  /\ full = Gen(6) /\ kept = Gen(6) /\ last = Gen(3)
  /\ DOMAIN last = EP
  /\ IndInv

(* ---- second half of C09: the retained history stays bounded ------------------------------ *)
(* once every end point has pulled, at most ONE retained entry lies at or before the smallest  *)
(* last request (everything older was dropped by the pull that made it the smallest)          *)
AllPulled == \A x \in EP : last[x] # -1
\* @type: Int;
TMin == CHOOSE m \in {last[y] : y \in EP} : \A y \in EP : m <= last[y]
BoundInv == AllPulled => \A a \in kept, b \in kept : (a <= TMin /\ b <= TMin) => a = b
IndInv2 == IndInv /\ BoundInv
(* the statement: retained <= (publications newer than the slowest end point's last request) + 1, *)
(* as an injection-free cardinality fact: every retained entry except at most one is newer        *)
Bound == AllPulled => \A a \in kept, b \in kept : (a # b /\ a < b) => b > TMin
IndInit2 ==
  /\ full = Gen(6) /\ kept = Gen(6) /\ last = Gen(3)
  /\ DOMAIN last = EP
  /\ IndInv2
(* negative control: a rule that evicts only strictly below the second-newest entry <= tmin keeps *)
(* two entries at or before tmin: BoundInv must fail for it                                       *)
PullLazy ==
  \E x \in EP, t \in Int :
    /\ kept # {} /\ t >= last[x] /\ t >= 0
    /\ \E a \in kept : a <= t
    /\ \E a \in kept : a >= t
    /\ last' = [last EXCEPT ![x] = t]
    /\ kept' = kept
    /\ UNCHANGED full
NextLazy == Publish \/ PullLazy
=============================================================================
