----------------------------- MODULE OutBufOps -----------------------------
(* Output history (finam.sdk.Output): publication, serving, eviction,      *)
(* spilling to disk, static outputs.  Guards/effects over a state record,  *)
(* shared by OutBuf.tla (model checking) and OutBuf_Trace.tla.             *)
(*                                                                         *)
(* cfg = [kinds, limit, size, pay, static]                                 *)
(*   kinds[k]  "direct" (Input), "pass" / "tpass" (Input behind a pass-      *)
(*             through adapter / behind a DelayToPush, which passes every    *)
(*             time up to the newest publication unchanged; the remaining   *)
(*             lines describe "pass": Input behind a pass-through            *)
(*             adapter: the end point is the input), "shared" (a further   *)
(*             Input on the previous end point's adapter), "buffer" (push- *)
(*             based adapter: registers itself, pulls at every             *)
(*             notification)                                               *)
(*   limit     memory limit in bytes or None, size bytes per data set      *)
(* st = [pubs, full, last, ram, ctr, files, fin]                           *)
(*   pubs      retained entries [t, id, sp]  (sp: spilled to a file)       *)
(*   full      ghost: all publications [t, id]                             *)
(*   last[k]   last served request of end point k, None if never           *)
EXTENDS FinamBase
CONSTANT Variant

Targets(cfg) == 1..Len(cfg.kinds)
Times(ps) == [i \in 1..Len(ps) |-> ps[i].t]

St0(cfg) == [pubs |-> <<>>, full |-> <<>>, last |-> [k \in Targets(cfg) |-> None],
             ram |-> 0, ctr |-> 0, files |-> 0, fin |-> FALSE]

(* Output._pack *)
Spills(cfg, st) == cfg.limit # None /\ cfg.limit < st.ram + cfg.size

(* Variant (constant of the instantiating module): "ok" is finam's rule;    *)
(* "evict-head" and "no-evict" are deliberately wrong rules used as         *)
(* negative controls for the invariants                                    *)
RECURSIVE EvictPubs(_, _)
EvictPubs(st, tmin) ==
  IF Variant # "no-evict" /\ Len(st.pubs) > 1 /\
     (IF Variant = "evict-head" THEN st.pubs[1].t <= tmin ELSE st.pubs[2].t <= tmin)
  THEN LET d == st.pubs[1]
       IN EvictPubs([st EXCEPT !.pubs = Tail(st.pubs),
                               !.files = IF d.sp THEN @ - 1 ELSE @,
                               !.ram = IF d.sp THEN @ ELSE @ - d.sz], tmin)
  ELSE st

InRange(st, t) == st.pubs # <<>> /\ st.pubs[1].t <= t /\ t <= Last(st.pubs).t

(* ids of the entries that may be served for t (both at the midpoint) *)
Serve(st, t) == {st.pubs[i].id : i \in {j \in 1..Len(st.pubs) : st.pubs[j].t \in NearestSet(Times(st.pubs), t)}}
ServeFull(st, t) == {st.full[i].id : i \in {j \in 1..Len(st.full) : st.full[j].t \in NearestSet(Times(st.full), t)}}

(* Output.get_data; ids: set of admissible payload ids, or {} with err.     *)
(* A static output serves its only data set for any time (t = None too).   *)
(* the time that reaches the output when end point k is asked for tq: an input behind a DelayToPush ("tpass", *)
(* and "shared" inputs on the same adapter) is answered for min(tq, newest publication)                        *)
RECURSIVE Carrier(_, _)
Carrier(cfg, k) == IF k > 1 /\ cfg.kinds[k] = "shared" THEN Carrier(cfg, k - 1) ELSE k
ReqT(cfg, st, k, tq) ==
  IF tq # None /\ st.full # <<>> /\ cfg.kinds[Carrier(cfg, k)] = "tpass" THEN Min2(tq, Last(st.full).t) ELSE tq
Get(cfg, st, k, tq) ==
  LET t == ReqT(cfg, st, k, tq) IN
  IF st.pubs = <<>> THEN [st |-> st, ids |-> {}, err |-> "FinamNoDataError"]
  ELSE IF cfg.static THEN [st |-> st, ids |-> {st.pubs[1].id}, err |-> ""]
  ELSE IF ~InRange(st, t) THEN [st |-> st, ids |-> {}, err |-> "FinamTimeError"]
  ELSE LET last2 == [st.last EXCEPT ![k] = t]
           st1 == [st EXCEPT !.last = last2]
           st2 == IF \E x \in Targets(cfg) : last2[x] = None THEN st1
                  ELSE EvictPubs(st1, SetMin({last2[x] : x \in Targets(cfg)}))
       IN [st |-> st2, ids |-> Serve(st, t), err |-> ""]

(* "dbuffer": a push-based adapter behind DelayFixed(2): its notification pull arrives two     *)
(* ticks earlier (not before the first publication)                                          *)
RECURSIVE NotifyBuffers(_, _, _, _)
NotifyBuffers(cfg, st, k, t) ==
  IF k > Len(cfg.kinds) THEN st
  ELSE NotifyBuffers(cfg, IF cfg.kinds[k] = "buffer" THEN Get(cfg, st, k, t).st
                          ELSE IF cfg.kinds[k] = "dbuffer" THEN Get(cfg, st, k, Max2(t - 2, st.full[1].t)).st
                          ELSE st, k + 1, t)

(* Output.push_data with a fresh payload id at time t (strictly after the newest) *)
PushOk(cfg, st, t, id) ==
  LET sp == Spills(cfg, st)
      e == [t |-> t, id |-> id, sp |-> sp, sz |-> cfg.size]
      st1 == [st EXCEPT !.pubs = Append(@, e), !.full = Append(@, [t |-> t, id |-> id]),
                        !.ram = IF sp THEN @ ELSE @ + cfg.size,
                        !.files = IF sp THEN @ + 1 ELSE @,
                        !.ctr = IF sp THEN @ + 1 ELSE @]
  IN NotifyBuffers(cfg, st1, 1, t)
(* a static output accepts exactly one publication *)
Push(cfg, st, t, id) ==
  IF cfg.static /\ st.pubs # <<>> THEN [st |-> st, err |-> "FinamStaticDataError"]
  ELSE [st |-> PushOk(cfg, st, t, id), err |-> ""]

Finalize(st) == [st EXCEPT !.pubs = <<>>, !.files = 0, !.ram = 0, !.fin = TRUE]

---------------------------------------------------------------------------
(* Properties (C09, C10) as state predicates *)
MinLast(cfg, st) == SetMin({st.last[k] : k \in Targets(cfg)})
AllPulled(cfg, st) == \A k \in Targets(cfg) : st.last[k] # None

(* C09: whatever a consumer may still request (any t >= its last request)  *)
(* is served exactly as by an output with unlimited history                *)
ServeAsUnlimited(cfg, st) ==
  \A k \in Targets(cfg) :
    \A t \in (IF st.last[k] = None THEN 0 ELSE st.last[k])..(IF st.full = <<>> THEN 0 ELSE Last(st.full).t) :
       (st.full # <<>> /\ t >= st.full[1].t) =>
          (InRange(st, t) /\ Serve(st, t) = ServeFull(st, t))

(* C09: bounded history once every consumer has pulled *)
Bound(cfg, st) ==
  AllPulled(cfg, st) =>
     Len(st.pubs) <= 1 + Cardinality({i \in 1..Len(st.full) : st.full[i].t > MinLast(cfg, st)})

(* C10: bookkeeping of RAM and files *)
Accounting(cfg, st) ==
  /\ st.files = Cardinality({i \in 1..Len(st.pubs) : st.pubs[i].sp})
  /\ st.ram = cfg.size * Cardinality({i \in 1..Len(st.pubs) : ~st.pubs[i].sp})
  /\ (cfg.limit # None /\ cfg.limit >= 0) => st.ram <= cfg.limit
  /\ cfg.limit = None => st.files = 0
  /\ st.fin => (st.files = 0 /\ st.pubs = <<>>)

=============================================================================
