---- MODULE ConnectStuckEmit ----
(* the shapes of a family whose initial exchange can not complete (C04: the cycle must be reported) *)
EXTENDS ConnectOps, ConnectFamilies, Json, IOUtils
ASSUME ndJsonSerialize(IOEnv.OUT_FILE, SetToSeq({cfg \in CSpace(IOEnv.FAMILY) : StuckSet(cfg) # {}}))
VARIABLE x
Init == x = 0
Next == UNCHANGED x
====
