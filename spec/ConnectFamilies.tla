--------------------------- MODULE ConnectFamilies ---------------------------
(* Dependency shapes of initial pulls and metadata transfer rules. *)
EXTENDS FinamBase

K(hasin, src, inown, pull, hasout, outown, data, off) ==
  [hasin |-> hasin, src |-> src, inown |-> inown, pull |-> pull, hasout |-> hasout,
   outown |-> outown, data |-> data, off |-> off, oprov |-> FALSE, refine |-> FALSE]
Datas == {"imm", "pulled", "ininfo"}
Cf(comps, order, fam) == [comps |-> comps, order |-> order, fam |-> fam]

(* a component with input (from src) and output, all variants *)
Mid(src) == {K(TRUE, src, io, p, TRUE, oo, d, off) :
               io \in BOOLEAN, p \in BOOLEAN, oo \in BOOLEAN, d \in Datas, off \in {0, 1}}
MidS(src) == {K(TRUE, src, io, p, TRUE, oo, d, 0) : io \in BOOLEAN, p \in BOOLEAN, oo \in BOOLEAN, d \in {"imm", "pulled"}}
HeadC == {K(FALSE, 0, TRUE, FALSE, TRUE, TRUE, "imm", off) : off \in {0, 1}}
TailC(src) == {K(TRUE, src, TRUE, p, FALSE, TRUE, "imm", 0) : p \in BOOLEAN}

Perm2 == {<<1, 2>>, <<2, 1>>}
Perm3 == {<<1, 2, 3>>, <<1, 3, 2>>, <<2, 1, 3>>, <<2, 3, 1>>, <<3, 1, 2>>, <<3, 2, 1>>}

Ring2(u) == {Cf(<<a, b>>, o, "ring2") : a \in Mid(2), b \in Mid(1), o \in Perm2}
Chain3(u) == {Cf(<<a, b, c>>, o, "chain3") : a \in HeadC, b \in Mid(1), c \in TailC(2), o \in Perm3}
Ring3(u) == {Cf(<<a, b, c>>, o, "ring3") : a \in MidS(3), b \in MidS(1), c \in MidS(2), o \in {<<1, 2, 3>>, <<3, 2, 1>>, <<2, 3, 1>>}}
(* one output, two readers; the second reader feeds a third stage *)
Fan(u) == {Cf(<<a, b, c, d>>, o, "fan") : a \in HeadC, b \in TailC(1), c \in Mid(1), d \in TailC(3),
                                          o \in {<<1, 2, 3, 4>>, <<4, 3, 2, 1>>, <<2, 4, 1, 3>>}}
(* chain whose head needs data from the tail (a cycle closed by a pull) *)
Loop3(u) == {Cf(<<a, b, c>>, o, "loop3") : a \in Mid(3), b \in Mid(1), c \in {K(TRUE, 2, TRUE, p, TRUE, TRUE, d, 0) : p \in BOOLEAN, d \in Datas},
                                           o \in {<<1, 2, 3>>, <<3, 2, 1>>}}

(* rings in which one component passes its output metadata to every connect call *)
Ring2Prov(u) == {Cf(<<[a EXCEPT !.oprov = TRUE], b>>, o, "ring2prov") : a \in {x \in Mid(2) : ~x.outown}, b \in Mid(1), o \in Perm2}

(* fan-out whose head passes its output metadata to every connect call while one reader exchanges late *)
FanProv(u) == {Cf(<<[a EXCEPT !.outown = FALSE, !.oprov = TRUE], b, c, d>>, o, "fanprov") :
                 a \in HeadC, b \in TailC(1), c \in {x \in Mid(1) : ~x.inown}, d \in TailC(3),
                 o \in {<<1, 2, 3, 4>>, <<4, 3, 2, 1>>, <<2, 4, 1, 3>>}}

(* components that first supply a guess and later the value refined after their own pull *)
Ring2Refine(u) == {Cf(<<[a EXCEPT !.refine = TRUE], [b EXCEPT !.refine = rb]>>, o, "ring2refine") :
                     a \in {x \in Mid(2) : x.data = "imm" /\ x.pull}, b \in Mid(1), rb \in BOOLEAN, o \in Perm2}
Chain3Refine(u) == {Cf(<<a, [b EXCEPT !.refine = TRUE], c>>, o, "chain3refine") :
                     a \in HeadC, b \in {x \in Mid(1) : x.data = "imm" /\ x.pull}, c \in TailC(2), o \in Perm3}

CSpace(f) ==
  CASE f = "ring2" -> Ring2(0) [] f = "chain3" -> Chain3(0) [] f = "ring3" -> Ring3(0)
    [] f = "fan" -> Fan(0) [] f = "loop3" -> Loop3(0) [] f = "ring2prov" -> Ring2Prov(0) [] f = "fanprov" -> FanProv(0)
    [] f = "ring2refine" -> Ring2Refine(0) [] f = "chain3refine" -> Chain3Refine(0)
=============================================================================
