-------------------------------- MODULE Sched --------------------------------
(* Model of Composition.run for whole families of compositions: the        *)
(* configuration is chosen in Init, so one TLC run covers                  *)
(* (configuration space) x (all behaviours).                               *)
(*                                                                         *)
(* Two next-state relations over the same guards/effects (SchedOps):       *)
(*   NextImpl  the driver as coded (deterministic: stable sort, first      *)
(*             lacking dependency in input order, shared chain dict)       *)
(*   NextAbs   the property-level scheduler: any component allowed by C02  *)
(*             whose inputs are available (C01) may be updated             *)
(* Mode "impl" checks the listed properties on NextImpl; mode "abs" checks *)
(* order independence (C05) on NextAbs.                                    *)
EXTENDS SchedOps, SchedFamilies, TLC

CONSTANTS Families,    \* set of names of configuration families (SchedFamilies)
          ImplName,    \* "intended" | "nocompose" | "countabove" | "nopop" | "nokeytime" | "pinned"
          Mode         \* "impl" | "abs"

VARIABLES cfg, s, ph,  \* ph: "run" | "done" | "circ" | "err"
          h,           \* per component: the requests of each of its updates (what it received)
          ref          \* mode "abs": outcome of the as-coded deterministic driver for cfg
vars == <<cfg, s, ph, h, ref>>

Impl == CASE ImplName = "intended"   -> Intended
          [] ImplName = "nocompose"  -> [Intended EXCEPT !.compose = FALSE]
          [] ImplName = "countabove" -> [Intended EXCEPT !.aboveBuf = FALSE]
          [] ImplName = "nopop"      -> [Intended EXCEPT !.popPull = FALSE]
          [] ImplName = "nokeytime"  -> [Intended EXCEPT !.keyTime = FALSE]
          [] ImplName = "depmin"     -> [Intended EXCEPT !.depmax = FALSE]
          [] ImplName = "pinned"     -> [compose |-> FALSE, aboveBuf |-> FALSE, popPull |-> FALSE, keyTime |-> FALSE, depmax |-> TRUE]

(* domain of C05: no push-time-dependent adapter *)
NoToPush(c) == \A l \in Links(c) : \A j \in 1..Len(Chain(c, l)) : Chain(c, l)[j].k # "topush"

Init == /\ \E f \in Families : cfg \in CfgSpace(f)
        /\ Mode = "abs" => NoToPush(cfg)
        /\ s = InitState(cfg)
        /\ ph = "run"
        /\ h = [c \in Comps(cfg) |-> <<>>]
        /\ ref = IF Mode = "abs" THEN RunImpl(Impl, cfg, s, h) ELSE <<>>

(* negative control for C05: the domain restriction dropped *)
InitAny == /\ \E f \in Families : cfg \in CfgSpace(f)
           /\ s = InitState(cfg)
           /\ ph = "run"
           /\ h = [c \in Comps(cfg) |-> <<>>]
           /\ ref = RunImpl(Impl, cfg, s, h)

Finish == /\ ph = "run" /\ ~MayUpdate(cfg, s)
          /\ ph' = "done" /\ UNCHANGED <<cfg, s, h, ref>>

StepImpl ==
  /\ ph = "run" /\ MayUpdate(cfg, s)
  /\ LET r == DriverStep(Impl, cfg, s) IN
       IF r.r = "upd"
       THEN LET u == EUpdate(cfg, s, r.c)
            IN s' = u.s /\ ph' = (IF u.ok THEN "run" ELSE "err")
               /\ h' = [h EXCEPT ![r.c] = Append(@, u.log)]
       ELSE s' = s /\ ph' = (IF r.r = "findep" THEN "err" ELSE "circ") /\ h' = h
  /\ UNCHANGED <<cfg, ref>>

StepAbs ==
  /\ ph = "run" /\ MayUpdate(cfg, s)
  /\ \/ \E c \in TimeComps(cfg) :
          /\ AllowedChoice(cfg, s, c) /\ Available(cfg, s, c) /\ ~Finished(cfg, s, c)
          /\ LET u == EUpdate(cfg, s, c)
             IN s' = u.s /\ ph' = (IF u.ok THEN "run" ELSE "err")
                /\ h' = [h EXCEPT ![c] = Append(@, u.log)]
     \/ /\ ~\E c \in TimeComps(cfg) : AllowedChoice(cfg, s, c) /\ Available(cfg, s, c)
        /\ s' = s /\ ph' = (IF FinishedDependency(cfg, s) THEN "err" ELSE "circ") /\ h' = h
  /\ UNCHANGED <<cfg, ref>>

Next == (IF Mode = "impl" THEN StepImpl ELSE StepAbs) \/ Finish
Spec == Init /\ [][Next]_vars /\ WF_vars(Next)

---------------------------------------------------------------------------
Updated(c) == s'.time[c] # s.time[c]

(* C01: at every update all inputs can be served for the announced time    *)
AvailableAtUpdate == [][\A c \in TimeComps(cfg) : Updated(c) => Available(cfg, s, c)]_vars
(* C01: ... and no pull on the way is refused (includes eviction)          *)
NoRefusedPull == ph # "err"
(* C02: only least-advanced components or what they transitively lack      *)
OnlyAllowedChoices == [][\A c \in TimeComps(cfg) : Updated(c) => AllowedChoice(cfg, s, c)]_vars
(* C03 *)
Monotone == [][\A c \in TimeComps(cfg) : s'.time[c] >= s.time[c]]_vars
NoLateUpdate == [][(\E c \in TimeComps(cfg) : Updated(c)) => MayUpdate(cfg, s)]_vars
NeverFinishedComp == \A c \in TimeComps(cfg) : ~Finished(cfg, s, c)     \* vacuity guard: must be violated on family finisher
NoUpdateAfterFinished == [][\A c \in TimeComps(cfg) : Updated(c) => ~Finished(cfg, s, c)]_vars
EndReached == ph = "done" => AllReached(cfg, s)
Terminates == <>(ph \in {"done", "circ", "err"})
(* C04 *)
NoFalseCycle == ph = "circ" => cfg.zone \notin {"dag", "resolved"}
CycleOnlyWhenReachable == [][ph' = "circ" /\ ph = "run" => CycleReachable(cfg, s)]_vars
ResolvedCompletes == cfg.zone \in {"dag", "resolved"} => <>(ph = "done")
UnbrokenReported == cfg.zone = "unbroken" => <>(ph \in {"circ", "done"})
UnbrokenNeverErr == cfg.zone = "unbroken" => ph # "err"

(* C05: whatever admissible order the updates are made in, the outcome    *)
(* class is that of the as-coded driver and, on completion, so are the     *)
(* final times and everything every consumer received                      *)
OrderIndependent ==
  (Mode = "abs" /\ ph # "run") =>
     /\ ph = ref.ph
     /\ ph = "done" => (s.time = ref.time /\ h = ref.h)

(* vacuity guards, expected to be violated: *)
NeverCirc == ph # "circ"
NeverDone == ph # "done"

StateBound == s.nupd <= 60

=============================================================================
