------------------------------- MODULE Payload -------------------------------
(* C08, payload normal form: what a consumer receives for every form in     *)
(* which a producer may publish (scalars, lists, flat / shaped arrays, with *)
(* time axis, masked, quantities in equivalent / convertible / incompatible *)
(* units), on a structured grid with data shape (2, 3), a scalar NoGrid and *)
(* a vector NoGrid(1).  A case is [grid, form, pu, ou, iu, om, st]: payload units *)
(* pu ("" = plain numbers), output units ou, input units iu ("" = unset).   *)
(* Lengths are in metres as exact rationals: m = 1, km = 1000, cm = 1/100,  *)
(* "meter" an alias of m; s is a time.                                      *)
EXTENDS FinamBase, TLC

Scale(u) == CASE u = "m" -> <<1, 1>> [] u = "meter" -> <<1, 1>> [] u = "km" -> <<1000, 1>>
              [] u = "cm" -> <<1, 100>> [] OTHER -> <<1, 1>>
Dim(u) == CASE u = "s" -> "time" [] u \in {"K", "degC"} -> "temperature" [] OTHER -> "length"
(* value v (rational) in units a expressed in units b; temperatures have an offset *)
Conv(a, b, v) ==
  IF Dim(a) = "temperature" THEN
     LET k == IF a = "degC" THEN RAdd(v, <<27315, 100>>) ELSE v
     IN IF b = "degC" THEN RSub(k, <<27315, 100>>) ELSE k
  ELSE RMul(v, RDiv(Scale(a), Scale(b)))
Compatible(a, b) == Dim(a) = Dim(b)
Factor(a, b) == RDiv(Scale(a), Scale(b))          \* value in a  ->  value in b
Canon(u) == IF u = "meter" THEN "m" ELSE u

GridForms == {"shaped", "timeaxis", "flat", "list", "masked", "wrongsize", "wrongshape", "scalar"}
ScalarForms == {"scalar", "list1", "array1", "array2"}
VectorForms == {"vec3", "vec3time", "matrix"}
Units == {"m", "meter", "km", "cm", "s"}
GridRForms == {"shaped", "timeaxis", "flat", "list"}

Cases0 ==
  {[grid |-> g, form |-> f, pu |-> pu, ou |-> ou, iu |-> iu, om |-> "flex"] :
     g \in {"g23"}, f \in GridForms, pu \in {"", "m", "km", "s"}, ou \in {"m", "km"}, iu \in {"", "m", "meter", "cm"}} \cup
  (* the output's metadata carries a fixed mask: plain payloads get exactly that mask *)
  {[grid |-> g, form |-> f, pu |-> pu, ou |-> ou, iu |-> iu, om |-> "fixed"] :
     g \in {"g23"}, f \in {"shaped", "timeaxis", "flat", "list"}, pu \in {"", "m", "km", "cm", "s"}, ou \in {"m", "km"}, iu \in {"", "cm"}} \cup
  (* the same field on a grid with reversed axes order (data shape (3, 2)) *)
  {[grid |-> g, form |-> f, pu |-> pu, ou |-> ou, iu |-> iu, om |-> om] :
     g \in {"g32r"}, f \in GridRForms, pu \in {"", "km"}, ou \in {"m"}, iu \in {"", "cm"}, om \in {"flex", "fixed"}} \cup
  (* temperatures: conversion has an offset *)
  {[grid |-> g, form |-> f, pu |-> pu, ou |-> ou, iu |-> iu, om |-> "flex"] :
     g \in {"nogrid"}, f \in {"scalar", "array1"}, pu \in {"", "degC", "K"}, ou \in {"K", "degC"}, iu \in {"", "K", "degC"}} \cup
  {[grid |-> g, form |-> f, pu |-> pu, ou |-> ou, iu |-> iu, om |-> "flex"] :
     g \in {"nogrid"}, f \in ScalarForms, pu \in {"", "m", "meter", "km", "cm", "s"}, ou \in {"m", "km"}, iu \in {"", "m", "km", "cm"}} \cup
  {[grid |-> g, form |-> f, pu |-> pu, ou |-> ou, iu |-> iu, om |-> "flex"] :
     g \in {"nogrid1"}, f \in VectorForms, pu \in {"", "km"}, ou \in {"m"}, iu \in {"", "cm"}}

(* static links (published once, read any number of times): the second read is observed *)
StaticSub(c) == \/ (c.grid = "nogrid" /\ c.form \in {"scalar", "array1"})
                \/ (c.grid \in {"g23", "g32r"} /\ c.form \in {"shaped", "flat"} /\ c.pu \in {"", "km"})
Cases == {c @@ [st |-> FALSE] : c \in Cases0} \cup {c @@ [st |-> TRUE] : c \in {d \in Cases0 : StaticSub(d)}}

FormOK(c) ==
  CASE c.grid = "g23"     -> c.form \in {"shaped", "timeaxis", "flat", "list", "masked"}
    [] c.grid = "g32r"    -> TRUE
    [] c.grid = "nogrid"  -> c.form \in {"scalar", "list1", "array1"}
    [] c.grid = "nogrid1" -> c.form \in {"vec3", "vec3time"}

Shape(c) == CASE c.grid = "g23" -> <<1, 2, 3>> [] c.grid = "g32r" -> <<1, 3, 2>> [] c.grid = "nogrid" -> <<1>> [] c.grid = "nogrid1" -> <<1, 3>>

(* [res, shape, val (what the published number 2 arrives as), units, masked] *)
Expect(c) ==
  LET pu == IF c.pu = "" THEN c.ou ELSE c.pu          \* plain numbers are in the output's units
      iu == IF c.iu = "" THEN c.ou ELSE c.iu
  IN IF ~Compatible(pu, c.ou) \/ ~FormOK(c)
     THEN [res |-> "FinamDataError", shape |-> <<>>, val |-> <<0, 1>>, units |-> "", masked |-> FALSE]
     ELSE [res |-> "ok", shape |-> Shape(c), val |-> Conv(pu, iu, <<2, 1>>), units |-> Canon(iu),
           masked |-> c.form = "masked" \/ c.om = "fixed"]

(* theorems checked by TLC over the whole case space *)
ASSUME \A a \in Units, b \in Units, d \in Units :
         (Compatible(a, b) /\ Compatible(b, d)) => RMul(Factor(a, b), Factor(b, d)) = Factor(a, d)
ASSUME \A a \in Units, b \in Units : Compatible(a, b) => RMul(Factor(a, b), Factor(b, a)) = <<1, 1>>
ASSUME \A c \in Cases : (Expect(c).res = "ok") => (Expect(c).shape[1] = 1 /\ Expect(c).val[2] > 0)
ASSUME \A v \in {0, 2, 100} : Conv("degC", "K", Conv("K", "degC", <<v, 1>>)) = <<v, 1>>

=============================================================================
