------------------------------- MODULE Payload -------------------------------
(* C08, payload normal form: what a consumer receives for every form in     *)
(* which a producer may publish (scalars, lists, flat / shaped arrays, with *)
(* time axis, masked, quantities in equivalent / convertible / incompatible *)
(* units), on a structured grid with data shape (2, 3), a scalar NoGrid and *)
(* a vector NoGrid(1).  A case is [grid, form, pu, ou, iu]: payload units   *)
(* pu ("" = plain numbers), output units ou, input units iu ("" = unset).   *)
(* Lengths are in metres as exact rationals: m = 1, km = 1000, cm = 1/100,  *)
(* "meter" an alias of m; s is a time.                                      *)
EXTENDS FinamBase, TLC

Scale(u) == CASE u = "m" -> <<1, 1>> [] u = "meter" -> <<1, 1>> [] u = "km" -> <<1000, 1>>
              [] u = "cm" -> <<1, 100>> [] u = "s" -> <<1, 1>>
Dim(u) == IF u = "s" THEN "time" ELSE "length"
Compatible(a, b) == Dim(a) = Dim(b)
Factor(a, b) == RDiv(Scale(a), Scale(b))          \* value in a  ->  value in b
Canon(u) == IF u = "meter" THEN "m" ELSE u

GridForms == {"shaped", "timeaxis", "flat", "list", "masked", "wrongsize", "wrongshape", "scalar"}
ScalarForms == {"scalar", "list1", "array1", "array2"}
VectorForms == {"vec3", "vec3time", "matrix"}
Units == {"m", "meter", "km", "cm", "s"}

Cases ==
  {[grid |-> g, form |-> f, pu |-> pu, ou |-> ou, iu |-> iu, om |-> "flex"] :
     g \in {"g23"}, f \in GridForms, pu \in {"", "m", "km", "s"}, ou \in {"m", "km"}, iu \in {"", "m", "meter", "cm"}} \cup
  (* the output's metadata carries a fixed mask: plain payloads get exactly that mask *)
  {[grid |-> g, form |-> f, pu |-> pu, ou |-> ou, iu |-> iu, om |-> "fixed"] :
     g \in {"g23"}, f \in {"shaped", "timeaxis", "flat", "list"}, pu \in {"", "m", "km", "cm", "s"}, ou \in {"m", "km"}, iu \in {"", "cm"}} \cup
  {[grid |-> g, form |-> f, pu |-> pu, ou |-> ou, iu |-> iu, om |-> "flex"] :
     g \in {"nogrid"}, f \in ScalarForms, pu \in {"", "m", "meter", "km", "cm", "s"}, ou \in {"m", "km"}, iu \in {"", "m", "km", "cm"}} \cup
  {[grid |-> g, form |-> f, pu |-> pu, ou |-> ou, iu |-> iu, om |-> "flex"] :
     g \in {"nogrid1"}, f \in VectorForms, pu \in {"", "km"}, ou \in {"m"}, iu \in {"", "cm"}}

FormOK(c) ==
  CASE c.grid = "g23"     -> c.form \in {"shaped", "timeaxis", "flat", "list", "masked"}
    [] c.grid = "nogrid"  -> c.form \in {"scalar", "list1", "array1"}
    [] c.grid = "nogrid1" -> c.form \in {"vec3", "vec3time"}

Shape(c) == CASE c.grid = "g23" -> <<1, 2, 3>> [] c.grid = "nogrid" -> <<1>> [] c.grid = "nogrid1" -> <<1, 3>>

(* [res, shape, fac (published number -> received number), units, masked]   *)
Expect(c) ==
  LET pu == IF c.pu = "" THEN c.ou ELSE c.pu          \* plain numbers are in the output's units
      iu == IF c.iu = "" THEN c.ou ELSE c.iu
  IN IF ~Compatible(pu, c.ou) \/ ~FormOK(c)
     THEN [res |-> "FinamDataError", shape |-> <<>>, fac |-> <<0, 1>>, units |-> "", masked |-> FALSE]
     ELSE [res |-> "ok", shape |-> Shape(c), fac |-> Factor(pu, iu), units |-> Canon(iu),
           masked |-> c.form = "masked" \/ c.om = "fixed"]

(* theorems checked by TLC over the whole case space *)
ASSUME \A a \in Units, b \in Units, d \in Units :
         (Compatible(a, b) /\ Compatible(b, d)) => RMul(Factor(a, b), Factor(b, d)) = Factor(a, d)
ASSUME \A a \in Units, b \in Units : Compatible(a, b) => RMul(Factor(a, b), Factor(b, a)) = <<1, 1>>
ASSUME \A c \in Cases : (Expect(c).res = "ok") => (Expect(c).shape[1] = 1 /\ Expect(c).fac[1] > 0)

=============================================================================
