CONSTANTS Variant = "intended" NCons = 2 Wide = TRUE
INIT EInit
NEXT ENext
