-------------------------------- MODULE Grid --------------------------------
(* C14 / C15: structured grid layouts.  A layout is                          *)
(*   [kind, dims, order, rev, inc, loc]                                      *)
(*   kind  "uniform" | "rect" (irregular axes) | "esri"                      *)
(*   dims  points per axis (x, y, z), 1..3 each; order "C" | "F";            *)
(*   rev   axes_reversed; inc[a] axis a is stored increasing;                *)
(*   loc   "cells" | "points".                                               *)
(* Coordinates are doubled integers, so cell centres are exact.              *)
EXTENDS FinamBase, TLC

(* "rect": 0, 2, 6, 12 (irregular); "rectb": same first and last node, other interior nodes *)
AxisPts(kind, n) ==
  CASE kind = "rect"  -> [k \in 1..n |-> (k - 1) * k]
    [] kind = "rectb" -> [k \in 1..n |-> IF k = 1 THEN 0 ELSE IF k = n THEN (n - 1) * n ELSE (k - 1) * k + 2]
    [] OTHER -> [k \in 1..n |-> 2 * (k - 1)]
Centres(p) == IF Len(p) = 1 THEN p ELSE [k \in 1..(Len(p) - 1) |-> (p[k] + p[k + 1]) \div 2]
D(L) == Len(L.dims)
(* data coordinates along natural axis a, increasing *)
NatAxis(L, a) == IF L.loc = "cells" THEN Centres(AxisPts(L.kind, L.dims[a])) ELSE AxisPts(L.kind, L.dims[a])
(* as stored: decreasing axes are flipped *)
Stored(L, a) == IF L.inc[a] THEN NatAxis(L, a) ELSE Reverse(NatAxis(L, a))
(* array axis j holds natural axis NatOf(j) *)
NatOf(L, j) == IF L.rev THEN D(L) + 1 - j ELSE j
DataShape(L) == [j \in 1..D(L) |-> Len(NatAxis(L, NatOf(L, j)))]
DataAxes(L) == [j \in 1..D(L) |-> Stored(L, NatOf(L, j))]
(* location (x, y, z) of the element at multi-index i of an array in data shape *)
Coord(L, i) == [a \in 1..D(L) |-> Stored(L, a)[i[NatOf(L, a)]]]

Prod(sh) == IF Len(sh) = 0 THEN 1 ELSE IF Len(sh) = 1 THEN sh[1] ELSE IF Len(sh) = 2 THEN sh[1] * sh[2] ELSE sh[1] * sh[2] * sh[3]
(* multi-index (1-based) of flat position p (0-based) *)
UnflatC(sh, p) ==
  CASE Len(sh) = 1 -> <<p + 1>>
    [] Len(sh) = 2 -> <<(p \div sh[2]) + 1, (p % sh[2]) + 1>>
    [] Len(sh) = 3 -> <<(p \div (sh[2] * sh[3])) + 1, ((p \div sh[3]) % sh[2]) + 1, (p % sh[3]) + 1>>
UnflatF(sh, p) ==
  CASE Len(sh) = 1 -> <<p + 1>>
    [] Len(sh) = 2 -> <<(p % sh[1]) + 1, (p \div sh[1]) + 1>>
    [] Len(sh) = 3 -> <<(p % sh[1]) + 1, ((p \div sh[1]) % sh[2]) + 1, (p \div (sh[1] * sh[2])) + 1>>
Unflat(ord, sh, p) == IF ord = "C" THEN UnflatC(sh, p) ELSE UnflatF(sh, p)

(* the flattened data point list in the grid's order *)
DataPoints(L) == [p \in 1..Prod(DataShape(L)) |-> Coord(L, Unflat(L.order, DataShape(L), p - 1))]

(* a token that identifies a location *)
Tok(c) == c[1] + (IF Len(c) > 1 THEN 20 * c[2] ELSE 0) + (IF Len(c) > 2 THEN 400 * c[3] ELSE 0)
(* the field "token of my location" as an array in layout L, flattened in C order *)
FieldC(L) == [p \in 1..Prod(DataShape(L)) |-> Tok(Coord(L, UnflatC(DataShape(L), p - 1)))]
(* ... and in canonical form: indexed x, y, z along increasing coordinates *)
NatShape(L) == [a \in 1..D(L) |-> Len(NatAxis(L, a))]
CanonC(L) == [p \in 1..Prod(NatShape(L)) |->
                Tok([a \in 1..D(L) |-> NatAxis(L, a)[UnflatC(NatShape(L), p - 1)[a]]])]
Masked(tok) == tok % 3 = 0

Locations(L) == {DataPoints(L)[p] : p \in 1..Prod(DataShape(L))}
SameGeometry(L1, L2) == D(L1) = D(L2) /\ \A a \in 1..D(L1) : AxisPts(L1.kind, L1.dims[a]) = AxisPts(L2.kind, L2.dims[a])
Compatible(L1, L2) == SameGeometry(L1, L2) /\ L1.loc = L2.loc

---------------------------------------------------------------------------
Incs(d) == [1..d -> BOOLEAN]
Layouts(kinds, dimsets) ==
  UNION {{[kind |-> k, dims |-> dm, order |-> o, rev |-> r, inc |-> ic, loc |-> lc] :
            k \in kinds, o \in {"C", "F"}, r \in BOOLEAN, ic \in Incs(Len(dm)), lc \in {"cells", "points"}}
         : dm \in dimsets}
AllDims == UNION {[1..d -> 1..3] : d \in 1..3}
(* four nodes on one axis: the smallest grids with unequal cell counts > 1 on two axes *)
WideDims == {<<4, 3>>, <<3, 4>>, <<4, 3, 2>>, <<2, 4, 3>>}
AllLayouts == Layouts({"uniform", "rect"}, AllDims \cup WideDims)
Esri == {[kind |-> "esri", dims |-> dm, order |-> o, rev |-> TRUE, inc |-> <<TRUE, FALSE>>, loc |-> "cells"] :
           dm \in {<<2, 2>>, <<3, 2>>, <<2, 3>>, <<3, 3>>, <<4, 3>>}, o \in {"C", "F"}}
PairDims == {<<2>>, <<3>>, <<2, 3>>, <<3, 3>>, <<1, 3>>, <<3, 2>>, <<2, 3, 2>>, <<3, 2, 3>>}

(* theorems (evaluated by TLC over the whole layout space) *)
(* every element has a distinct location, the point list enumerates them all,  *)
(* canonical form is a rearrangement of the field                               *)
ThLayout(L) ==
  /\ Cardinality(Locations(L)) = Prod(DataShape(L))
  /\ Prod(DataShape(L)) = Prod(NatShape(L))
  /\ {FieldC(L)[p] : p \in 1..Prod(DataShape(L))} = {CanonC(L)[p] : p \in 1..Prod(NatShape(L))}
  /\ \A p \in 1..(Prod(NatShape(L)) - 1) :     \* canonical: C order over (x, y, z) increasing = lexicographic
        LET a == UnflatC(NatShape(L), p - 1) b == UnflatC(NatShape(L), p)
        IN \E k \in 1..D(L) : a[k] < b[k] /\ \A j \in 1..(k - 1) : a[j] = b[j]
ThPair(L1, L2) == Compatible(L1, L2) <=> Locations(L1) = Locations(L2)
=============================================================================
