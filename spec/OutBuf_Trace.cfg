SPECIFICATION Spec
CONSTANT Variant = "ok"
CONSTRAINT Collect
POSTCONDITION Report
CHECK_DEADLOCK FALSE
