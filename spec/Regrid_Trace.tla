---- MODULE Regrid_Trace ----
(* [case, obs]; case = [c, field, smask, tmask]; obs = [res, vals, mask, iso]:          *)
(* delivered values / mask in the listing order of the target grid, iso: the result did *)
(* not change when the values in masked source cells were replaced                      *)
EXTENDS Regrid, Json, IOUtils
Traces == ndJsonDeserialize(IOEnv.TRACE_FILE)
VARIABLES tid, verdict
Verdict(t) ==
  LET c == t.case.c o == t.obs IN
  IF o.res # "ok" THEN (IF MayRefuse(c) /\ o.res \in {"err:FinamDataError", "err:FinamMetaDataError"} THEN "ok" ELSE "regrid-raised@1")
  ELSE IF Len(o.vals) # NT(c) THEN "regrid-shape@1"
  ELSE IF \E p \in 1..NT(c) : TMask(c, p) /\ ~o.mask[p] THEN "masked-target-stays-masked@1"
  ELSE IF \E p \in 1..NT(c) :
            LET a == Admissible(c, p) IN
            IF o.mask[p] THEN ~a.masked ELSE ~(o.vals[p] \in a.vals)
       THEN (IF c.kind = "nearest" THEN "nearest-source@1" ELSE "linear-affine@1")
  ELSE IF ~o.iso THEN "mask-isolation@1"
  ELSE "ok"
Init == tid \in 1..Len(Traces) /\ verdict = Verdict(Traces[tid])
Next == FALSE /\ UNCHANGED <<tid, verdict>>
Spec == Init /\ [][Next]_<<tid, verdict>>
Collect == IF verdict = "ok" THEN TLCSet(3, TLCGet(3) + 1) ELSE TLCSet(2, TLCGet(2) \cup {<<tid, verdict>>})
ASSUME TLCSet(2, {}) /\ TLCSet(3, 0)
Report == /\ PrintT(<<"ACCEPTED", TLCGet(3)>>) /\ PrintT(<<"TOTAL", Len(Traces)>>)
          /\ \A v \in TLCGet(2) : PrintT(<<"VERDICT", v[1], v[2]>>)
====
