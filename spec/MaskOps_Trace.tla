---- MODULE MaskOps_Trace ----
(* [case, obs]; obs = [res, comp, back, backmask, prep, prepmask] *)
EXTENDS MaskOps, Json, IOUtils
Traces == ndJsonDeserialize(IOEnv.TRACE_FILE)
VARIABLES tid, verdict
Verdict(t) ==
  LET c == t.case o == t.obs
      v == Compress(c.shape, c.order, c.mask)
      e == Expand(c.shape, c.order, c.mask, v)
  IN IF o.res # "ok" THEN "compress-raised@1"
     ELSE IF o.comp # v THEN "compress-order@1"
     ELSE IF \E p \in 1..Prod(c.shape) : ~c.mask[p] /\ o.back[p] # e[p] THEN "compress-roundtrip@1"
     ELSE IF o.backmask # c.mask THEN "compress-roundtrip-mask@1"
     ELSE IF o.prepmask # c.mask THEN "prepare-mask@1"
     ELSE IF \E p \in 1..Prod(c.shape) : ~c.mask[p] /\ o.prep[p] # 10 + p THEN "prepare-mask@1"
     ELSE "ok"
Init == tid \in 1..Len(Traces) /\ verdict = Verdict(Traces[tid])
Next == FALSE /\ UNCHANGED <<tid, verdict>>
Spec == Init /\ [][Next]_<<tid, verdict>>
Collect == IF verdict = "ok" THEN TLCSet(3, TLCGet(3) + 1) ELSE TLCSet(2, TLCGet(2) \cup {<<tid, verdict>>})
ASSUME TLCSet(2, {}) /\ TLCSet(3, 0)
Report == /\ PrintT(<<"ACCEPTED", TLCGet(3)>>) /\ PrintT(<<"TOTAL", Len(Traces)>>)
          /\ \A v \in TLCGet(2) : PrintT(<<"VERDICT", v[1], v[2]>>)
====
