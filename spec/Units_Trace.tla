---- MODULE Units_Trace ----
(* pair: obs = [compat, equiv, fac (exponents of 2,3,5,pi or <<>>), temp (values for 0,1,100 as rationals), *)
(*              link (outcome class over a link), linkfac, prep (outcome of prepare), relabel,            *)
(*              linksame (the value 1 arrives as over the plain link also over a static link read twice and as integer payload)] *)
(* seq:  obs = [ans]: sequence of <<compat, equiv>> answers                                               *)
EXTENDS Units, Json, IOUtils
Traces == ndJsonDeserialize(IOEnv.TRACE_FILE)
VARIABLES tid, verdict
PairVerdict(c, o) ==
  LET a == Catalogue[c.a] b == Catalogue[c.b] IN
  IF o.compat # Compatible(a, b) THEN "units-compatible@1"
  ELSE IF o.equiv # Equivalent(a, b) THEN "units-equivalent@1"
  ELSE IF ~Compatible(a, b) THEN
       \* "refused with a data or metadata error"
       (IF ~(o.link \in {"err:FinamMetaDataError", "err:FinamDataError"}) \/ ~(o.prep \in {"err:FinamMetaDataError", "err:FinamDataError"})
        THEN "units-refused@1" ELSE "ok")
  ELSE IF o.link # "ok" \/ o.prep # "ok" THEN "units-accepted@1"
  ELSE IF \E k \in 1..Len(o.linksame) : ~o.linksame[k] THEN "units-link-variant@1"   \* static link read twice, integer payload
  ELSE IF HasOffset(a, b) THEN
       (IF <<o.temp[1], o.temp[2], o.temp[3]>> # <<TempMap(a, b)[0], TempMap(a, b)[1], TempMap(a, b)[100]>> THEN "units-convert@1"
        ELSE "ok")
  ELSE IF o.fac # Factor(a, b) \/ o.linkfac # Factor(a, b) THEN "units-convert@1"
  ELSE IF Equivalent(a, b) /\ ~o.relabel THEN "units-relabel@1"
  ELSE "ok"
SeqVerdict(c, o) ==
  IF \E k \in 1..Len(c.qs) :
       o.ans[k] # <<Compatible(Catalogue[c.qs[k][1]], Catalogue[c.qs[k][2]]), Equivalent(Catalogue[c.qs[k][1]], Catalogue[c.qs[k][2]])>>
  THEN "units-history@1" ELSE "ok"
Verdict(t) == IF t.case.what = "pair" THEN PairVerdict(t.case, t.obs) ELSE SeqVerdict(t.case, t.obs)
Init == tid \in 1..Len(Traces) /\ verdict = Verdict(Traces[tid])
Next == FALSE /\ UNCHANGED <<tid, verdict>>
Spec == Init /\ [][Next]_<<tid, verdict>>
Collect == IF verdict = "ok" THEN TLCSet(3, TLCGet(3) + 1) ELSE TLCSet(2, TLCGet(2) \cup {<<tid, verdict>>})
ASSUME TLCSet(2, {}) /\ TLCSet(3, 0)
Report == /\ PrintT(<<"ACCEPTED", TLCGet(3)>>) /\ PrintT(<<"TOTAL", Len(Traces)>>)
          /\ \A v \in TLCGet(2) : PrintT(<<"VERDICT", v[1], v[2]>>)
====
