---------------------------- MODULE Connect_Trace ----------------------------
(* Validation of recorded connect phases (harness/fv/connect_run.py):       *)
(* ev[i] = [c, st, inX, inD, outP, outX, outD, pubs, sup, pvals, tok] after every *)
(* Component.connect call; end = [out, unconnected, meta]                   *)
EXTENDS ConnectOps, Json, IOUtils, TLC
Traces == ndJsonDeserialize(IOEnv.TRACE_FILE)
VARIABLES tid, i, s, ob, verdict
vars == <<tid, i, s, ob, verdict>>
Tr == Traces[tid]
Fail(c, k) == c \o "@" \o ToString(k)

(* Property-level clauses are evaluated on what was observed (o: the flags recorded after the *)
(* previous call of each component), not on the per-call schedule of the reference model:    *)
(* C06 does not say in which call an exchange has to happen.  With FV_STRICT=1 every call is *)
(* additionally compared with ConnectOps.Call (s), the order of attempts of the pinned       *)
(* ConnectHelper.connect.                                                                    *)
Strict == "FV_STRICT" \in DOMAIN IOEnv /\ IOEnv.FV_STRICT = "1"
Flags(e) == <<e.inX, e.inD, e.outP, e.outX, e.outD>>
O0(cfg) == [st |-> [c \in Comps(cfg) |-> "init"],
            fl |-> [c \in Comps(cfg) |-> <<FALSE, FALSE, cfg.comps[c].hasout /\ cfg.comps[c].outown, FALSE, FALSE>>],
            dv |-> [c \in Comps(cfg) |-> "none"],      \* the initial data the component supplied last
            pv |-> [c \in Comps(cfg) |-> -1]]          \* the value it published
ObsItems(cfg, o) == {<<c, f>> \in Items(cfg) :
                       o.fl[c][CASE f = "inX" -> 1 [] f = "inD" -> 2 [] f = "outP" -> 3 [] f = "outX" -> 4 [] f = "outD" -> 5]}
CompleteObs(cfg, fl, c) ==
  LET k == cfg.comps[c] IN
  /\ k.hasin => fl[1]
  /\ (k.hasin /\ k.pull) => fl[2]
  /\ k.hasout => (fl[3] /\ fl[4] /\ fl[5])
SupTok(cfg, p, v) == 1000 * p + cfg.comps[p].off + (IF v = "guess" THEN 500 ELSE 0)

ObsVerdict(cfg, o, e, k) ==
  LET c == e.c
      kk == cfg.comps[c]
      old == o.fl[c]
      new == Flags(e)
      o2 == [o EXCEPT !.fl[c] = new, !.st[c] = e.st]
      F == ObsItems(cfg, o2)
      names == <<"inX", "inD", "outP", "outX", "outD">>
      dv2 == IF e.sup # "none" THEN e.sup ELSE o.dv[c]
  IN IF o.st[c] = "connected" THEN Fail("call-of-connected", k)
     ELSE IF ~(e.st \in {"connecting", "idle", "connected"}) THEN Fail("connect-status", k)
     ELSE IF \E j \in 1..5 : old[j] /\ ~new[j] THEN Fail("exchange-undone", k)
     ELSE IF e.st = "connected" /\ ~CompleteObs(cfg, new, c) THEN Fail("connected-only-when-complete", k)
     \* progress is reported exactly when something new was exchanged (not asserted for the first call)
     ELSE IF o.st[c] # "init" /\ e.st = "idle" /\ new # old THEN Fail("progress-iff-new", k)
     ELSE IF o.st[c] # "init" /\ e.st = "connecting" /\ new = old THEN Fail("progress-iff-new", k)
     \* nothing is exchanged before what it depends on
     ELSE IF \E j \in 1..5 : new[j] /\ ~old[j] /\ ~Derivable(cfg, F, <<c, names[j]>>) THEN Fail("exchange-before-dependency", k)
     \* initial data: published for the composition start and the own start when later, and only then
     ELSE IF kk.hasout /\ Targets(cfg, c) # {} /\ e.pubs # (IF new[5] THEN InitialPubs(kk) ELSE <<>>) THEN Fail("double-initial-push", k)
     \* what is published is what the component supplied last (a value supplied again replaces the earlier one)
     ELSE IF new[5] /\ ~old[5] /\ (dv2 = "none" \/ \E x \in 1..Len(e.pvals) : e.pvals[x] # SupTok(cfg, c, dv2)) THEN Fail("initial-data-value", k)
     \* an initial pull delivers what the producer published
     ELSE IF new[2] /\ ~old[2] /\ e.tok # o.pv[kk.src] THEN Fail("initial-pull-value", k)
     ELSE "ok"

EvVerdict(cfg, st, o, e, k) ==
  LET c == e.c
      r == Call(cfg, st, c)
      n == r.s
      kk == cfg.comps[c]
      ov == ObsVerdict(cfg, o, e, k)
  IN IF ov # "ok" THEN ov
     ELSE IF ~Strict THEN "ok"
     ELSE IF e.st # n.st[c] THEN Fail("connect-status", k)
     ELSE IF Flags(e) # <<n.inX[c], n.inD[c], n.outP[c] /\ kk.hasout, n.outX[c], n.outD[c]>> THEN Fail("connect-fixpoint", k)
     ELSE IF n.inD[c] /\ ~st.inD[c] /\ e.tok # InitTok(cfg, n, kk.src) THEN Fail("initial-pull-value", k)
     ELSE "ok"

EndVerdict(cfg, o, en, k) ==
  LET open == {c \in Comps(cfg) : o.st[c] # "connected"} IN
  IF en.out = "ok" THEN
     (IF ~(open = {} /\ StuckSet(cfg) = {}) THEN Fail("connect-outcome", k)
      ELSE IF \E c \in Comps(cfg) : ~CompleteObs(cfg, o.fl[c], c) THEN Fail("connected-only-when-complete", k)
      \* en.meta[c] = [inm, outm]: markers found in the exchanged infos of the slots afterwards
      ELSE IF \E c \in Comps(cfg) : cfg.comps[c].hasout /\ en.meta[c].outm # OutM(cfg, c, Fuel(cfg)) THEN Fail("metadata-provenance", k)
      ELSE IF \E c \in Comps(cfg) : cfg.comps[c].hasin /\ en.meta[c].inm # InM(cfg, c, Fuel(cfg)) THEN Fail("metadata-provenance", k)
      ELSE "ok")
  ELSE IF en.out = "stall" THEN
     (IF StuckSet(cfg) = {} THEN Fail("false-stall", k)
      ELSE IF {en.unconnected[x] : x \in 1..Len(en.unconnected)} # StuckSet(cfg) THEN Fail("stall-set", k)
      ELSE IF open # StuckSet(cfg) THEN Fail("stall-set", k)
      ELSE "ok")
  ELSE Fail("connect-error", k)

Init == tid \in 1..Len(Traces) /\ i = 1 /\ s = S0(Traces[tid].cfg) /\ ob = O0(Traces[tid].cfg) /\ verdict = "ok"
Next ==
  /\ i <= Len(Tr.ev) + 1
  /\ i' = i + 1 /\ UNCHANGED tid
  /\ IF verdict # "ok" THEN UNCHANGED <<s, ob, verdict>>
     ELSE IF i <= Len(Tr.ev) THEN
          /\ verdict' = EvVerdict(Tr.cfg, s, ob, Tr.ev[i], i)
          /\ s' = Call(Tr.cfg, s, Tr.ev[i].c).s
          /\ ob' = LET e == Tr.ev[i] IN
                    [ob EXCEPT !.fl[e.c] = Flags(e), !.st[e.c] = e.st,
                               !.dv[e.c] = IF e.sup # "none" THEN e.sup ELSE @,
                               !.pv[e.c] = IF e.pvals # <<>> THEN e.pvals[1] ELSE @]
     ELSE /\ verdict' = EndVerdict(Tr.cfg, ob, Tr.end, i) /\ s' = s /\ ob' = ob
Spec == Init /\ [][Next]_vars
Done == i = Len(Tr.ev) + 2
Collect == Done => IF verdict = "ok" THEN TLCSet(3, TLCGet(3) + 1)
                   ELSE TLCSet(2, TLCGet(2) \cup {<<tid, verdict>>})
ASSUME TLCSet(2, {}) /\ TLCSet(3, 0)
Report == /\ PrintT(<<"ACCEPTED", TLCGet(3)>>) /\ PrintT(<<"TOTAL", Len(Traces)>>)
          /\ \A v \in TLCGet(2) : PrintT(<<"VERDICT", v[1], v[2]>>)
=============================================================================
