---------------------------- MODULE Connect_Trace ----------------------------
(* Validation of recorded connect phases (harness/fv/connect_run.py):       *)
(* ev[i] = [c, st, inX, inD, outP, outX, outD, pubs, tok] after every       *)
(* Component.connect call; end = [out, unconnected, meta]                   *)
EXTENDS ConnectOps, Json, IOUtils, TLC
Traces == ndJsonDeserialize(IOEnv.TRACE_FILE)
VARIABLES tid, i, s, verdict
vars == <<tid, i, s, verdict>>
Tr == Traces[tid]
Fail(c, k) == c \o "@" \o ToString(k)

EvVerdict(cfg, st, e, k) ==
  LET c == e.c
      r == Call(cfg, st, c)
      n == r.s
      kk == cfg.comps[c]
  IN IF st.st[c] = "connected" THEN Fail("call-of-connected", k)
     ELSE IF e.st = "connected" /\ ~Complete(cfg, n, c) THEN Fail("connected-only-when-complete", k)
     ELSE IF e.st # n.st[c] /\ e.st \in {"connecting", "idle"} /\ n.st[c] \in {"connecting", "idle"}
          THEN Fail("progress-iff-new", k)
     ELSE IF e.st # n.st[c] THEN Fail("connect-status", k)
     ELSE IF <<e.inX, e.inD, e.outP, e.outX, e.outD>> # <<n.inX[c], n.inD[c], n.outP[c] /\ kk.hasout, n.outX[c], n.outD[c]>>
          THEN Fail("connect-fixpoint", k)
     ELSE IF kk.hasout /\ Targets(cfg, c) # {} /\ e.pubs # n.pubs[c] THEN Fail("double-initial-push", k)
     ELSE IF n.inD[c] /\ ~st.inD[c] /\ e.tok # InitTok(cfg, n, kk.src) THEN Fail("initial-pull-value", k)
     ELSE "ok"

EndVerdict(cfg, st, en, k) ==
  LET open == {c \in Comps(cfg) : st.st[c] # "connected"} IN
  IF en.out = "ok" THEN
     (IF ~(open = {} /\ StuckSet(cfg) = {}) THEN Fail("connect-outcome", k)
      \* en.meta[c] = [inm, outm]: markers found in the exchanged infos of the slots afterwards
      ELSE IF \E c \in Comps(cfg) : cfg.comps[c].hasout /\ en.meta[c].outm # OutM(cfg, c, Fuel(cfg)) THEN Fail("metadata-provenance", k)
      ELSE IF \E c \in Comps(cfg) : cfg.comps[c].hasin /\ en.meta[c].inm # InM(cfg, c, Fuel(cfg)) THEN Fail("metadata-provenance", k)
      ELSE "ok")
  ELSE IF en.out = "stall" THEN
     (IF StuckSet(cfg) = {} THEN Fail("false-stall", k)
      ELSE IF {en.unconnected[x] : x \in 1..Len(en.unconnected)} # StuckSet(cfg) THEN Fail("stall-set", k)
      ELSE "ok")
  ELSE Fail("connect-error", k)

Init == tid \in 1..Len(Traces) /\ i = 1 /\ s = S0(Traces[tid].cfg) /\ verdict = "ok"
Next ==
  /\ i <= Len(Tr.ev) + 1
  /\ i' = i + 1 /\ UNCHANGED tid
  /\ IF verdict # "ok" THEN UNCHANGED <<s, verdict>>
     ELSE IF i <= Len(Tr.ev) THEN
          /\ verdict' = EvVerdict(Tr.cfg, s, Tr.ev[i], i)
          /\ s' = Call(Tr.cfg, s, Tr.ev[i].c).s
     ELSE /\ verdict' = EndVerdict(Tr.cfg, s, Tr.end, i) /\ s' = s
Spec == Init /\ [][Next]_vars
Done == i = Len(Tr.ev) + 2
Collect == Done => IF verdict = "ok" THEN TLCSet(3, TLCGet(3) + 1)
                   ELSE TLCSet(2, TLCGet(2) \cup {<<tid, verdict>>})
ASSUME TLCSet(2, {}) /\ TLCSet(3, 0)
Report == /\ PrintT(<<"ACCEPTED", TLCGet(3)>>) /\ PrintT(<<"TOTAL", Len(Traces)>>)
          /\ \A v \in TLCGet(2) : PrintT(<<"VERDICT", v[1], v[2]>>)
=============================================================================
