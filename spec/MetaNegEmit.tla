---- MODULE MetaNegEmit ----
(* writes the configuration space of MetaNeg.tla (producer info with unset fields x consumer *)
(* infos); the harness adds lags, link kinds and listing orders                              *)
EXTENDS MetaNeg, Json, IOUtils
ASSUME ndJsonSerialize(IOEnv.OUT_FILE, <<[pinfos |-> SetToSeq(NegP), cinfos |-> SetToSeq(NegC)]>>)
EInit == cfg = 0 /\ s = 0
ENext == UNCHANGED <<cfg, s>>
====
