INIT Init
NEXT Next
