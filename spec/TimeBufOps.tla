----------------------------- MODULE TimeBufOps -----------------------------
(* Time-buffering adapters (finam.adapters.time / time_integration):       *)
(* NextTime, PreviousTime, LinearTime, StepTime(sigma), AvgOverTime,       *)
(* SumOverTime.  Results are exact rationals <<num, den>>.                 *)
(*                                                                         *)
(* cfg = [kind, sig, pt, limit, size, pay]                                 *)
(*   kind  "next" | "prev" | "linear" | "step" | "avg" | "sum" | "stack"   *)
(*   sig   step position as <<num, den>> or <<-1, 1>> for linear (avg/sum) *)
(*   pt    SumOverTime per_time                                            *)
(* st = [lab, full, prev, first, ram, files, fin]                          *)
(*   lab   retained entries [t, v, sp]; full: ghost, all notifications     *)
(*   prev  time of the previous pull of an integration adapter (None       *)
(*         before the first notification); npull pulls served so far       *)
EXTENDS FinamBase

IsInteg(cfg) == cfg.kind \in {"avg", "sum"}
Linear(cfg) == cfg.sig[1] < 0

St0 == [lab |-> <<>>, full |-> <<>>, prev |-> None, npull |-> 0, ram |-> 0, files |-> 0, fin |-> FALSE]

Spills(cfg, st) == cfg.limit # None /\ cfg.limit < st.ram + cfg.size

Notify(cfg, st, t, v) ==
  LET sp == Spills(cfg, st) IN
  [st EXCEPT !.lab = Append(@, [t |-> t, v |-> v, sp |-> sp, sz |-> cfg.size]),
             !.full = Append(@, [t |-> t, v |-> v]),
             !.prev = IF IsInteg(cfg) /\ @ = None THEN t ELSE @,
             !.ram = IF sp THEN @ ELSE @ + cfg.size,
             !.files = IF sp THEN @ + 1 ELSE @]

RECURSIVE EvictLab(_, _)
EvictLab(st, tm) ==
  IF Len(st.lab) > 1 /\ st.lab[2].t <= tm
  THEN LET d == st.lab[1]
       IN EvictLab([st EXCEPT !.lab = Tail(st.lab),
                              !.files = IF d.sp THEN @ - 1 ELSE @,
                              !.ram = IF d.sp THEN @ ELSE @ - d.sz], tm)
  ELSE st

---------------------------------------------------------------------------
(* The mathematical definitions over a history es = <<[t, v], ...>>,       *)
(* strictly increasing in t.                                               *)
InSpan(es, t) == es # <<>> /\ es[1].t <= t /\ t <= es[Len(es)].t
SegOf(es, t) == CHOOSE i \in 1..(Len(es) - 1) : es[i].t < t /\ t <= es[i + 1].t  \* for es[1].t < t

NextDef(es, t) == LET i == CHOOSE k \in 1..Len(es) : es[k].t >= t /\ \A j \in 1..(k - 1) : es[j].t < t
                  IN RInt(es[i].v)
PrevDef(es, t) == LET i == CHOOSE k \in 1..Len(es) : es[k].t <= t /\ \A j \in (k + 1)..Len(es) : es[j].t > t
                  IN RInt(es[i].v)
(* value of the linear interpolant at rational x = <<n, d>> inside segment i *)
LinAt(es, i, x) ==
  LET g == es[i + 1].t - es[i].t
  IN RAdd(RInt(es[i].v), RMul(RDiv(RSub(x, RInt(es[i].t)), RInt(g)), RInt(es[i + 1].v - es[i].v)))
LinearDef(es, t) ==
  IF \E k \in 1..Len(es) : es[k].t = t THEN RInt(es[CHOOSE k \in 1..Len(es) : es[k].t = t].v)
  ELSE LinAt(es, SegOf(es, t), RInt(t))
(* step interpolant: the old value up to and including relative position sig, the new one after *)
StepDef(es, sig, t) ==
  IF \E k \in 1..Len(es) : es[k].t = t THEN RInt(es[CHOOSE k \in 1..Len(es) : es[k].t = t].v)
  ELSE LET i == SegOf(es, t)
           dt == RDiv(RInt(t - es[i].t), RInt(es[i + 1].t - es[i].t))
       IN IF RLt(sig, dt) THEN RInt(es[i + 1].v) ELSE RInt(es[i].v)

(* integral of the interpolant over [a, b] (rationals) clipped to segment i *)
PieceLin(es, i, a, b) ==
  LET lo == RMax(a, RInt(es[i].t)) hi == RMin(b, RInt(es[i + 1].t))
  IN IF ~RLt(lo, hi) THEN RInt(0)
     ELSE RMul(RSub(hi, lo), RDiv(RAdd(LinAt(es, i, lo), LinAt(es, i, hi)), RInt(2)))
PieceStep(es, sig, i, a, b) ==
  LET lo == RMax(a, RInt(es[i].t)) hi == RMin(b, RInt(es[i + 1].t))
      c == RAdd(RInt(es[i].t), RMul(sig, RInt(es[i + 1].t - es[i].t)))   \* position of the step
  IN IF ~RLt(lo, hi) THEN RInt(0)
     ELSE RAdd(RMul(RInt(es[i].v), RSub(RMin(hi, c), RMin(lo, c))),
               RMul(RInt(es[i + 1].v), RSub(RMax(hi, c), RMax(lo, c))))
Piece(es, sig, i, a, b) == IF sig[1] < 0 THEN PieceLin(es, i, a, b) ELSE PieceStep(es, sig, i, a, b)

RECURSIVE IntegralFrom(_, _, _, _, _, _)
(* perTime: the integral proper; otherwise every piece is weighted by the   *)
(* fraction of its segment instead of its duration ("plain weighted sum")   *)
IntegralFrom(es, sig, i, a, b, perTime) ==
  IF i >= Len(es) THEN RInt(0)
  ELSE LET p == Piece(es, sig, i, a, b)
           w == IF perTime THEN p ELSE RDiv(p, RInt(es[i + 1].t - es[i].t))
       IN RAdd(w, IntegralFrom(es, sig, i + 1, a, b, perTime))
Integral(es, sig, a, b, perTime) == IntegralFrom(es, sig, 1, RInt(a), RInt(b), perTime)

(* payload "hole": the second cell is missing (masked) in the publications with index 2 modulo 3.  A result  *)
(* is owed for that cell whenever none of the publications that contribute to it misses the cell: the ones   *)
(* from the last publication at or before the start of the period (interpolation: the request time) to the   *)
(* first one at or after the request time                                                                     *)
HoleIdx(i) == i % 3 = 2
NoHole(es, from, to) ==
  LET Lo == {es[i].t : i \in {j \in 1..Len(es) : es[j].t <= from}}
      Hi == {es[i].t : i \in {j \in 1..Len(es) : es[j].t >= to}}
      lo == IF Lo = {} THEN from ELSE SetMax(Lo)
      hi == IF Hi = {} THEN to ELSE SetMin(Hi)
  IN \A i \in 1..Len(es) : (es[i].t >= lo /\ es[i].t <= hi) => ~HoleIdx(i)

(* physical length of one tick in seconds (cfg.tick = <<num, den>>, chosen by the harness; one day if absent): *)
(* only per-time sums of data in m/s depend on it                                                             *)
TickSeconds(cfg) == IF "tick" \in DOMAIN cfg THEN RNorm(cfg.tick[1], cfg.tick[2]) ELSE RInt(86400)

(* what the adapter has to return for a pull at t; p0 = previous pull       *)
(* {"free"}: the statement does not fix the value (first pull, p0 = p1)     *)
Def(cfg, es, p0, t) ==
  CASE cfg.kind = "next"   -> NextDef(es, t)
    [] cfg.kind = "prev"   -> PrevDef(es, t)
    [] cfg.kind = "linear" -> LinearDef(es, t)
    [] cfg.kind = "step"   -> StepDef(es, cfg.sig, t)
    \* per-time data in m/s (pay = "flux"): times are days, "units multiplied by time and reduced" gives metres
    [] cfg.kind = "sum"    -> LET v == Integral(es, cfg.sig, p0, t, cfg.pt)
                              IN IF cfg.pt /\ cfg.pay = "flux" THEN RMul(v, TickSeconds(cfg)) ELSE v
    [] cfg.kind = "avg"    -> RDiv(Integral(es, cfg.sig, p0, t, TRUE), RInt(t - p0))

Asserted(cfg, st, t) == cfg.kind # "stack" /\ (~IsInteg(cfg) \/ (st.npull > 0 /\ st.prev < t))

(* StackTime (growth beyond the listed properties): all retained data sets before t and the   *)
(* first one at or after t, in order                                                          *)
StackVals(st, t) ==
  LET k == CHOOSE j \in 1..Len(st.lab) : st.lab[j].t >= t /\ \A i \in 1..(j - 1) : st.lab[i].t < t
  IN [i \in 1..k |-> st.lab[i].v]

(* TimeCachingAdapter._get_data / TimeIntegrationAdapter._get_data *)
Get(cfg, st, t) ==
  IF st.lab = <<>> THEN [st |-> st, err |-> "FinamNoDataError", val |-> <<0, 1>>, free |-> TRUE]
  ELSE IF t < st.lab[1].t \/ t > st.lab[Len(st.lab)].t
       THEN [st |-> st, err |-> "FinamTimeError", val |-> <<0, 1>>, free |-> TRUE]
  ELSE LET es == [k \in 1..Len(st.lab) |-> [t |-> st.lab[k].t, v |-> st.lab[k].v]]
           as == Asserted(cfg, st, t)
           val == IF as THEN Def(cfg, es, st.prev, t) ELSE <<0, 1>>
           st1 == IF IsInteg(cfg) THEN [EvictLab(st, st.prev) EXCEPT !.prev = t] ELSE EvictLab(st, t)
       IN [st |-> [st1 EXCEPT !.npull = @ + 1], err |-> "", val |-> val, free |-> ~as]

Finalize(st) == [st EXCEPT !.lab = <<>>, !.files = 0, !.ram = 0, !.fin = TRUE]

(* C11/C12: the value computed from the retained entries equals the         *)
(* definition over the full history, for every admissible next request      *)
EvictTransparent(cfg, st) ==
  st.lab # <<>> =>
    \A t \in st.lab[1].t..st.lab[Len(st.lab)].t :
       (Asserted(cfg, st, t) /\ (IsInteg(cfg) => t > st.prev) /\ (~IsInteg(cfg) => TRUE)) =>
          LET es == [k \in 1..Len(st.lab) |-> [t |-> st.lab[k].t, v |-> st.lab[k].v]]
          IN Def(cfg, es, st.prev, t) = Def(cfg, st.full, st.prev, t)

(* C12: every average lies within the range of the contributing values *)
AvgInRange(cfg, st, t) ==
  (cfg.kind = "avg" /\ Asserted(cfg, st, t) /\ InSpan(st.full, t)) =>
     LET a == Def(cfg, st.full, st.prev, t)
         I == {k \in 1..Len(st.full) : (k < Len(st.full) /\ st.full[k + 1].t > st.prev /\ st.full[k].t < t)
                                        \/ (k > 1 /\ st.full[k - 1].t < t /\ st.full[k].t > st.prev)
                                        \/ st.full[k].t \in {st.prev, t}}
         vs == {st.full[k].v : k \in I}
     IN vs # {} /\ RLe(RInt(SetMin(vs)), a) /\ RLe(a, RInt(SetMax(vs)))

=============================================================================
