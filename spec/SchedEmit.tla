----------------------------- MODULE SchedEmit -----------------------------
(* Writes a configuration family as ndjson (one configuration per line)     *)
(* for the harness: OUT_FILE=<path> FAMILY=<name> tlc SchedEmit             *)
EXTENDS SchedFamilies, Json, IOUtils, TLC
VARIABLE x
ASSUME ndJsonSerialize(IOEnv.OUT_FILE, SetToSeq(CfgSpace(IOEnv.FAMILY)))
Init == x = 0
Next == UNCHANGED x
=============================================================================
