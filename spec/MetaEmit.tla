---- MODULE MetaEmit ----
(* evaluates the theorems of Meta.tla (ASSUME) and writes the two factors of the case   *)
(* space Cases = PInfos x CInfos x {direct, pass}                                       *)
EXTENDS Meta, Json, IOUtils
ASSUME ndJsonSerialize(IOEnv.OUT_FILE, <<[pinfos |-> SetToSeq(PInfos), cinfos |-> SetToSeq(CInfos)]>>)
VARIABLE x
Init == x = 0
Next == UNCHANGED x
====
