---- MODULE MetaEmit ----
(* evaluates the theorems of Meta.tla (ASSUME) and writes the two factors of the case   *)
(* space Cases = PInfos x CInfos x {direct, pass}                                       *)
EXTENDS Meta, Json, IOUtils
(* (kept here, not in Meta.tla: every module that extends Meta would re-evaluate it) *)
(* C07 as theorems over the whole product of producer / consumer infos *)
(* quick tier: the two "empty mask" forms and the second consumer-side value of the extra field *)
(* are left to the replay; FULL=1 (thorough tier) quantifies over the whole product            *)
ThP == IF IOEnv.FULL = "1" THEN PInfos ELSE {i \in PInfos : i.mask \notin {"E", "E0"}}
ThC == IF IOEnv.FULL = "1" THEN CInfos ELSE {i \in CInfos : i.mask \notin {"E0"} /\ i.foo # "w"}
ASSUME \A po \in ThP, ci \in ThC :
   LET r == Exchange(po, ci) IN
   /\ (r.res = "ok") <=> ~(GridConflict(po, ci) \/ UnitsConflict(po, ci) \/ MaskConflict(po, ci) \/ Unfillable(po, ci))
   /\ (r.res = "ok") =>
        /\ r.inp.time # "none" /\ r.inp.grid # "none" /\ r.inp.units # "none"
        /\ SameLocations(r.inp.grid, r.out.grid)
        /\ Dim(r.inp.units) = Dim(r.out.units)
        /\ ~MaskConflict(r.out, ci)
        /\ (po.grid = "none" => r.out.grid = ci.grid) /\ (ci.grid = "none" => r.inp.grid = r.out.grid)
        /\ (po.units = "none" => r.out.units = ci.units) /\ (ci.units = "none" => r.inp.units = r.out.units)
        /\ (po.time = "none" => r.out.time = ci.time) /\ (ci.time = "none" => r.inp.time = r.out.time)
        /\ (po.foo = "none" => r.out.foo = ci.foo) /\ (ci.foo = "none" => r.inp.foo = r.out.foo)
        /\ r.inp.foo # "none" /\ r.out.foo # "none"

ASSUME ndJsonSerialize(IOEnv.OUT_FILE, <<[pinfos |-> SetToSeq(PInfos), cinfos |-> SetToSeq(CInfos)]>>)
VARIABLE x
Init == x = 0
Next == UNCHANGED x
====
