---- MODULE Grid_Trace ----
(* [case, obs].  case.what = "layout": obs = [shape, size, axes, points, npoints,       *)
(*   cellsok, ushape, upoints, ucellsok]                                                 *)
(* case.what = "memo": case.ops sequence of operations, obs.res their results           *)
(* case.what = "canon": obs = [canon, back, shape]; "compat": obs = [compat]            *)
(* case.what = "link":  obs = [res, shape, field, mask]                                 *)
EXTENDS Grid, Json, IOUtils
Traces == ndJsonDeserialize(IOEnv.TRACE_FILE)
VARIABLES tid, verdict

LayoutVerdict(L, o) ==
  IF o.shape # DataShape(L) THEN "grid-shape@1"
  ELSE IF o.size # Prod(DataShape(L)) THEN "grid-shape@1"
  ELSE IF o.axes # DataAxes(L) THEN "grid-axes@1"
  ELSE IF o.points # DataPoints(L) THEN "grid-points@1"
  ELSE IF ~o.cellsok THEN "grid-cells@1"
  ELSE IF o.ushape # <<Prod(DataShape(L))>> \/ o.upoints # DataPoints(L) \/ ~o.ucellsok THEN "grid-unstructured-cast@1"
  ELSE "ok"

(* location memo machine: results always reflect the current data location of the object that is *)
(* read.  L: the object in hand; Lo: the other object (the original after "copy"), "swap" switches *)
RECURSIVE MemoFrom(_, _, _, _, _)
MemoFrom(L, Lo, ops, res, k) ==
  IF k > Len(ops) THEN "ok"
  ELSE LET op == ops[k] IN
       IF op = "cells" \/ op = "points" THEN MemoFrom([L EXCEPT !.loc = op], Lo, ops, res, k + 1)
       ELSE IF op = "copy" THEN MemoFrom(L, L, ops, res, k + 1)
       ELSE IF op = "swap" THEN MemoFrom(Lo, L, ops, res, k + 1)
       ELSE LET want == CASE op = "shape" -> DataShape(L) [] op = "size" -> <<Prod(DataShape(L))>>
                          [] op = "npoints" -> <<Prod(DataShape(L))>>
            IN IF res[k] # want THEN "grid-location-memo@" \o ToString(k) ELSE MemoFrom(L, Lo, ops, res, k + 1)

CanonVerdict(L, o) ==
  IF o.canon # CanonC(L) \/ o.cshape # NatShape(L) THEN "canonical-order@1"
  ELSE IF o.back # FieldC(L) THEN "canon-roundtrip@1"
  ELSE "ok"

LinkVerdict(c, o) ==
  IF ~Compatible(c.src, c.dst) THEN (IF o.res = "err:FinamMetaDataError" THEN "ok" ELSE "compatible-iff-same-locations@1")
  ELSE IF o.res # "ok" THEN "transform-located@1"
  ELSE IF c.stk THEN      \* two time entries: both laid out for the consumer
       (IF o.shape # <<2>> \o DataShape(c.dst) THEN "transform-shape@1"
        ELSE IF o.field # FieldC(c.dst) \o [p \in 1..Len(FieldC(c.dst)) |-> FieldC(c.dst)[p] + 500] THEN "transform-located@1"
        ELSE "ok")
  ELSE IF o.shape # <<1>> \o DataShape(c.dst) THEN "transform-shape@1"
  ELSE IF Len(o.field) # Len(FieldC(c.dst)) THEN "transform-shape@1"
  ELSE IF ~c.masked /\ o.field # FieldC(c.dst) THEN "transform-located@1"
  ELSE IF c.masked /\ o.mask # [p \in 1..Len(o.field) |-> Masked(FieldC(c.dst)[p])] THEN "transform-mask@1"
  ELSE IF c.masked /\ \E p \in 1..Len(o.field) : ~o.mask[p] /\ o.field[p] # FieldC(c.dst)[p] THEN "transform-located@1"
  ELSE "ok"

Raised(o) == "raised" \in DOMAIN o
Verdict(t) ==
  LET c == t.case o == t.obs IN
  IF Raised(o) THEN (IF c.what \in {"layout", "memo"} THEN "grid-raised@1" ELSE "grid-conversion-raised@1") ELSE
  CASE c.what = "layout" -> LayoutVerdict(c.L, o)
    [] c.what = "memo"   -> MemoFrom(c.L, c.L, c.ops, o.res, 1)
    [] c.what = "canon"  -> CanonVerdict(c.L, o)
    [] c.what = "compat" -> IF o.compat = Compatible(c.src, c.dst) THEN "ok" ELSE "compatible-iff-same-locations@1"
    [] c.what = "link"   -> LinkVerdict(c, o)
Init == tid \in 1..Len(Traces) /\ verdict = Verdict(Traces[tid])
Next == FALSE /\ UNCHANGED <<tid, verdict>>
Spec == Init /\ [][Next]_<<tid, verdict>>
Collect == IF verdict = "ok" THEN TLCSet(3, TLCGet(3) + 1) ELSE TLCSet(2, TLCGet(2) \cup {<<tid, verdict>>})
ASSUME TLCSet(2, {}) /\ TLCSet(3, 0)
Report == /\ PrintT(<<"ACCEPTED", TLCGet(3)>>) /\ PrintT(<<"TOTAL", Len(Traces)>>)
          /\ \A v \in TLCGet(2) : PrintT(<<"VERDICT", v[1], v[2]>>)
====
