INIT Init
NEXT Next
