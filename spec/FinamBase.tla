----------------------------- MODULE FinamBase -----------------------------
(* Shared definitions for all finam specification modules.                  *)
(* Times are integer ticks (days, or half days where midpoints matter).     *)
EXTENDS Integers, Sequences, FiniteSets, SequencesExt

None == -1

Max2(a, b) == IF a >= b THEN a ELSE b
Min2(a, b) == IF a <= b THEN a ELSE b
Abs(a) == IF a < 0 THEN -a ELSE a

SetMin(S) == CHOOSE m \in S : \A x \in S : m <= x
SetMax(S) == CHOOSE m \in S : \A x \in S : m >= x

RECURSIVE GCD(_, _)
GCD(a, b) == IF b = 0 THEN Abs(a) ELSE GCD(b, a % b)

(* Exact rationals <<num, den>>, den > 0, normalised. *)
RNorm(n, d) == LET g == GCD(n, d)
                   sg == IF d < 0 THEN -1 ELSE 1
               IN IF g = 0 THEN <<0, 1>> ELSE <<sg * (n \div g), sg * (d \div g)>>
RAdd(p, q) == RNorm(p[1] * q[2] + q[1] * p[2], p[2] * q[2])
RSub(p, q) == RNorm(p[1] * q[2] - q[1] * p[2], p[2] * q[2])
RMul(p, q) == RNorm(p[1] * q[1], p[2] * q[2])
RDiv(p, q) == RNorm(p[1] * q[2], p[2] * q[1])
RInt(n) == <<n, 1>>
RLe(p, q) == p[1] * q[2] <= q[1] * p[2]
RLt(p, q) == p[1] * q[2] < q[1] * p[2]
RMin(p, q) == IF RLe(p, q) THEN p ELSE q
RMax(p, q) == IF RLe(p, q) THEN q ELSE p


RECURSIVE SeqSum(_)
SeqSum(sq) == IF sq = <<>> THEN 0 ELSE Head(sq) + SeqSum(Tail(sq))

SeqToSet(sq) == {sq[i] : i \in DOMAIN sq}

(* What an output serves for request time t out of the strictly increasing  *)
(* publication times ts (Output._interpolate): the nearest publication,     *)
(* either neighbour exactly at the midpoint; {} when t is out of range.     *)
NearestSet(ts, t) ==
  IF ts = <<>> \/ t < ts[1] \/ t > ts[Len(ts)] THEN {}
  ELSE IF \E i \in 1..Len(ts) : ts[i] = t THEN {t}
  ELSE LET i == CHOOSE k \in 1..(Len(ts) - 1) : ts[k] < t /\ t < ts[k + 1]
       IN IF 2 * t < ts[i] + ts[i + 1] THEN {ts[i]}
          ELSE IF 2 * t > ts[i] + ts[i + 1] THEN {ts[i + 1]}
          ELSE {ts[i], ts[i + 1]}

(* Eviction of a retained history after the slowest reader requested tmin  *)
(* (Output._clear_data, TimeCachingAdapter._clear_cached_data).            *)
RECURSIVE EvictSeq(_, _)
EvictSeq(ts, tmin) ==
  IF Len(ts) > 1 /\ ts[2] <= tmin THEN EvictSeq(Tail(ts), tmin) ELSE ts

=============================================================================
