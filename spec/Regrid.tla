------------------------------- MODULE Regrid -------------------------------
(* C16: regridding between grids given as layouts of Grid.tla (structured,   *)
(* or the same locations as an unstructured grid / unstructured points).     *)
(* case = [kind, src, dst, su, tu, sm, tm, fill]                             *)
(*   kind "nearest" | "linear"; su / tu "struct" | "unstr" | "upoints";      *)
(*   su = "umixed": the source is the unstructured mesh Mesh (triangles and  *)
(*   quadrilaterals mixed, data on cells, located at the mean of the nodes)   *)
(*   sm / tm: source / target carry the mask "token divisible by 3 / 4";     *)
(*   fill: RegridLinear(fill_with_nearest=True)                              *)
(* Values: nearest - every source location carries its token; linear - the   *)
(* affine field 3x + 5y + 7 on doubled integer coordinates.                  *)
EXTENDS Grid

N(L) == Prod(DataShape(L))
(* locations in the order in which data of that grid is listed *)
Locs(L, how) == IF how = "struct" THEN [p \in 1..N(L) |-> Coord(L, UnflatC(DataShape(L), p - 1))]
                ELSE DataPoints(L)
(* a genuinely unstructured source: 9 nodes, 2 quadrilaterals and 4 triangles (doubled coordinates) *)
MeshPts == << <<0, 0>>, <<6, 0>>, <<12, 0>>, <<0, 6>>, <<6, 6>>, <<12, 6>>, <<0, 12>>, <<6, 12>>, <<12, 12>> >>
MeshCells == << <<1, 2, 5, 4>>, <<2, 3, 5>>, <<3, 6, 5>>, <<4, 5, 8, 7>>, <<5, 6, 8>>, <<6, 9, 8>> >>
SumAx(cell, a) == LET RECURSIVE S(_)
                      S(j) == IF j = 0 THEN 0 ELSE MeshPts[cell[j]][a] + S(j - 1)
                  IN S(Len(cell))
Centroid(cell) == [a \in 1..2 |-> SumAx(cell, a) \div Len(cell)]
ASSUME \A k \in 1..Len(MeshCells), a \in 1..2 : SumAx(MeshCells[k], a) % Len(MeshCells[k]) = 0    \* exact
MeshLocs == [k \in 1..Len(MeshCells) |-> Centroid(MeshCells[k])]
MeshLayout == [kind |-> "mesh", dims |-> <<Len(MeshCells)>>, order |-> "C", rev |-> FALSE, inc |-> <<TRUE>>, loc |-> "cells"]
NS(c) == IF c.su = "umixed" THEN Len(MeshCells) ELSE N(c.src)
SLocs(c) == IF c.su = "umixed" THEN MeshLocs ELSE Locs(c.src, c.su)
NT(c) == IF c.tu = "umixed" THEN Len(MeshCells) ELSE N(c.dst)
TLocs(c) == IF c.tu = "umixed" THEN MeshLocs ELSE Locs(c.dst, c.tu)
SMask(c, p) == c.sm /\ (IF c.su = "umixed" THEN p % 3 = 0 ELSE Tok(SLocs(c)[p]) % 3 = 0)
TMask(c, p) == c.tm /\ (IF c.tu = "umixed" THEN p % 4 = 1 ELSE Tok(TLocs(c)[p]) % 4 = 1)
Dist2(a, b) == LET dx == a[1] - b[1]
                   dy == IF Len(a) > 1 THEN a[2] - b[2] ELSE 0
                   dz == IF Len(a) > 2 THEN a[3] - b[3] ELSE 0
               IN dx * dx + dy * dy + dz * dz
Live(c) == {p \in 1..NS(c) : ~SMask(c, p)}
NearestSrc(c, q) == {p \in Live(c) : \A r \in Live(c) : Dist2(SLocs(c)[p], q) <= Dist2(SLocs(c)[r], q)}
Affine(q) == 3 * q[1] + (IF Len(q) > 1 THEN 5 * q[2] ELSE 0) + 7
SrcField(c) == [p \in 1..NS(c) |-> IF c.kind = "nearest" THEN Tok(SLocs(c)[p]) ELSE Affine(SLocs(c)[p])]

(* position of q relative to the convex hull of the unmasked source locations (2-D) *)
Orient(a, b, q) == (b[1] - a[1]) * (q[2] - a[2]) - (b[2] - a[2]) * (q[1] - a[1])
LivePts(c) == {SLocs(c)[p] : p \in Live(c)}
FullDim(c) == \E a \in LivePts(c), b \in LivePts(c), d \in LivePts(c) : Orient(a, b, d) # 0
Outside(c, q) == \E a \in LivePts(c), b \in LivePts(c) :
                    a # b /\ (\A s \in LivePts(c) : Orient(a, b, s) >= 0) /\ Orient(a, b, q) < 0
Inside(c, q) == \A a \in LivePts(c), b \in LivePts(c) :
                    (a # b /\ \A s \in LivePts(c) : Orient(a, b, s) >= 0) => Orient(a, b, q) > 0

(* admissible outcomes at target position p: set of values, and whether masked is admissible *)
NearestVals(c, q) == {SrcField(c)[s] : s \in NearestSrc(c, q)}
Admissible(c, p) ==
  LET q == TLocs(c)[p] IN
  IF TMask(c, p) THEN [vals |-> {}, masked |-> TRUE]
  ELSE IF c.kind = "nearest" THEN [vals |-> NearestVals(c, q), masked |-> FALSE]
  ELSE IF Inside(c, q) THEN [vals |-> {Affine(q)}, masked |-> FALSE]
  ELSE IF Outside(c, q) THEN (IF c.fill THEN [vals |-> NearestVals(c, q), masked |-> FALSE]
                              ELSE [vals |-> {}, masked |-> TRUE])
  ELSE [vals |-> {Affine(q)} \cup (IF c.fill THEN NearestVals(c, q) ELSE {}), masked |-> ~c.fill]

(* a fixed target mask without filling: the adapter may refuse the setup when some unmasked    *)
(* target is not strictly inside the hull (it could not be masked); it must never deliver it  *)
MayRefuse(c) == c.kind = "linear" /\ c.tm /\ ~c.fill /\
                \E p \in 1..NT(c) : ~TMask(c, p) /\ ~Inside(c, TLocs(c)[p])

Hows(L) == IF L.loc = "points" THEN {"struct", "unstr", "upoints"} ELSE {"struct", "unstr"}
SrcLayouts == {L \in Layouts({"uniform", "rect"}, {<<3>>, <<2, 3>>, <<3, 3>>}) : L.order = "F" \/ (L.rev /\ L.dims = <<2, 3>>)}
DstLayouts == {L \in Layouts({"uniform"}, {<<4>>, <<3, 2>>, <<3, 3>>}) : (L.order = "C" /\ ~L.rev) \/ (L.order = "F" /\ L.rev)}
             \cup {L \in Esri : L.dims = <<3, 3>>}
NearestCases(u) ==
  {c \in {[kind |-> "nearest", src |-> s, dst |-> d, su |-> su, tu |-> tu, sm |-> sm, tm |-> tm, fill |-> FALSE] :
            s \in SrcLayouts, d \in DstLayouts, su \in {"struct", "unstr", "upoints"}, tu \in {"struct", "unstr"},
            sm \in BOOLEAN, tm \in BOOLEAN} :
     /\ D(c.src) = D(c.dst) /\ c.su \in Hows(c.src) /\ c.tu \in Hows(c.dst) /\ Live(c) # {}
     /\ (c.dst.kind = "esri" => c.tu = "struct")}
(* the mixed mesh onto a fine structured grid covering it *)
MeshDst == {L \in Layouts({"uniform"}, {<<7, 7>>}) : L.loc = "points" /\ ~L.rev /\ L.inc = <<TRUE, TRUE>>}
MeshCases(u) ==
  {[kind |-> "nearest", src |-> MeshLayout, dst |-> d, su |-> "umixed", tu |-> "struct", sm |-> sm, tm |-> tm, fill |-> FALSE] :
     d \in MeshDst, sm \in BOOLEAN, tm \in BOOLEAN} \cup
  {[kind |-> "linear", src |-> MeshLayout, dst |-> d, su |-> "umixed", tu |-> "struct", sm |-> sm, tm |-> FALSE, fill |-> f] :
     d \in MeshDst, sm \in BOOLEAN, f \in BOOLEAN}
(* ... and a structured source covering it onto the mixed mesh as target *)
MeshSrc == {L \in Layouts({"uniform"}, {<<7, 7>>}) : L.loc = "points" /\ L.order = "F" /\ ~L.rev /\ L.inc = <<TRUE, TRUE>>}
MeshTargetCases(u) ==
  {[kind |-> "nearest", src |-> s, dst |-> MeshLayout, su |-> su, tu |-> "umixed", sm |-> sm, tm |-> tm, fill |-> FALSE] :
     s \in MeshSrc, su \in {"struct", "upoints"}, sm \in BOOLEAN, tm \in BOOLEAN} \cup
  {[kind |-> "linear", src |-> s, dst |-> MeshLayout, su |-> "upoints", tu |-> "umixed", sm |-> sm, tm |-> FALSE, fill |-> f] :
     s \in MeshSrc, sm \in BOOLEAN, f \in BOOLEAN}
(* three-dimensional grids with two cell layers along z, as structured grid and as its unstructured cast *)
Src3D == {L \in Layouts({"uniform"}, {<<2, 2, 3>>, <<3, 2, 3>>}) : L.order = "F" /\ ~L.rev /\ L.inc = <<TRUE, TRUE, TRUE>> /\ L.loc = "cells"}
Dst3D == {L \in Layouts({"uniform"}, {<<2, 2, 3>>, <<3, 2, 3>>}) : L.order = "C" /\ ~L.rev /\ L.inc = <<TRUE, TRUE, TRUE>>}
Near3D(u) ==
  {[kind |-> "nearest", src |-> s, dst |-> d, su |-> su, tu |-> tu, sm |-> sm, tm |-> FALSE, fill |-> FALSE] :
     s \in Src3D, d \in Dst3D, su \in {"struct", "unstr"}, tu \in {"struct", "unstr"}, sm \in BOOLEAN}
(* identity between layouts of one grid *)
IdentityCases(u) ==
  {[kind |-> "nearest", src |-> s, dst |-> d, su |-> "struct", tu |-> "struct", sm |-> FALSE, tm |-> FALSE, fill |-> FALSE] :
     s \in Layouts({"uniform"}, {<<2, 3>>, <<3, 2, 2>>}), d \in Layouts({"uniform"}, {<<2, 3>>, <<3, 2, 2>>})}
IdCases(u) == {c \in IdentityCases(0) : c.src.dims = c.dst.dims /\ c.src.loc = c.dst.loc}
LinSrc == {L \in Layouts({"uniform", "rect"}, {<<3, 3>>, <<2, 3>>, <<3, 4>>}) : L.order = "F" /\ ~L.rev /\ \A a \in 1..2 : L.inc[a]}
LinDst == {L \in Layouts({"uniform", "rect"}, {<<3, 3>>, <<4, 3>>}) : L.order = "C" /\ ~L.rev /\ \A a \in 1..2 : L.inc[a]}
LinearCases(u) ==
  {c \in {[kind |-> "linear", src |-> s, dst |-> d, su |-> su, tu |-> "struct", sm |-> sm, tm |-> tm, fill |-> f] :
            s \in LinSrc, d \in LinDst, su \in {"struct", "unstr", "upoints"}, sm \in BOOLEAN, tm \in BOOLEAN, f \in BOOLEAN} :
     /\ c.su \in Hows(c.src) /\ (c.su = "struct" => c.sm)     \* unstructured or masked sources only
     /\ FullDim(c) /\ Cardinality(LivePts(c)) >= 4}

=============================================================================
