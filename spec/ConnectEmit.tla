---- MODULE ConnectEmit ----
EXTENDS ConnectFamilies, Json, IOUtils, TLC
ASSUME ndJsonSerialize(IOEnv.OUT_FILE, SetToSeq(CSpace(IOEnv.FAMILY)))
VARIABLE x
Init == x = 0
Next == UNCHANGED x
====
