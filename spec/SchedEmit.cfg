INIT Init
NEXT Next
