----------------------------- MODULE Sched_Trace -----------------------------
(* Validation of recorded executions of the real driver against the        *)
(* scheduler specification.  TRACE_FILE holds one trace per line            *)
(* (harness/fv/sched_run.py).  The monitor is total: every event of every   *)
(* trace is consumed, each clause that applies to the event is evaluated on *)
(* the specification state (which the monitor advances with the very same   *)
(* EUpdate effect as Sched.tla), and the first failing clause is the        *)
(* verdict "<clause>@<event index>".                                        *)
EXTENDS SchedOps, Json, IOUtils, TLC

Traces == ndJsonDeserialize(IOEnv.TRACE_FILE)

VARIABLES tid, i, s, verdict
vars == <<tid, i, s, verdict>>

Tr == Traces[tid]
Cfg == Tr.cfg
NEv == Len(Tr.ev)

Fail(clause, k) == clause \o "@" \o ToString(k)

ProjLog(lg) == [k \in 1..Len(lg) |-> <<lg[k].kind, lg[k].l, lg[k].t>>]
ProjSet(lg) == {<<lg[k].kind, lg[k].l, lg[k].t>> : k \in 1..Len(lg)}

(* served token must be the publication nearest to the requested time in   *)
(* the producer's full history (either neighbour at the midpoint)           *)
CanonOK(cfg, st, e) ==
  \A k \in 1..Len(e.log) :
     LET r == e.log[k] IN
     (r.kind = "src" /\ r.ok) =>
        LET p == Src(cfg, r.l)
        IN r.tok \in {Tok(cfg, p, g) : g \in NearestSet(st.full[p], r.t)}

(* what arrives through a single time-interpolation adapter (NextTime / PreviousTime / LinearTime) next to the *)
(* input is determined by the producer's full publication history alone, however far ahead the producer was   *)
(* driven by other consumers: the first publication at or after t, the last at or before t, the linear        *)
(* interpolant (compared when it is an integer)                                                               *)
BufCanonOK(cfg, st, e) ==
  LET c == e.c IN
  (~e.fail /\ Len(e.got) = Len(cfg.comps[c].ins)) =>
  \A ii \in 1..Len(cfg.comps[c].ins) :
    LET l == <<c, ii>>  ch == Chain(cfg, l)  p == Src(cfg, l) IN
    (Len(ch) = 1 /\ ch[1].k = "buffer" /\ ch[1].b \in {"next", "prev", "linear"} /\ IsTime(cfg, p) /\ ~IsRelay(cfg, p)
     /\ cfg.comps[p].u = "m") =>
       LET S == {st.full[p][x] : x \in 1..Len(st.full[p])}
           tt == e.ta
           Up == {g \in S : g >= tt}  Dn == {g \in S : g <= tt}
       IN (Up # {} /\ Dn # {}) =>
          LET g2 == SetMin(Up)  g1 == SetMax(Dn)  v1 == Tok(cfg, p, g1)  v2 == Tok(cfg, p, g2) IN
          CASE ch[1].b = "next" -> e.got[ii] = v2
            [] ch[1].b = "prev" -> e.got[ii] = v1
            [] OTHER -> (g1 = g2 /\ e.got[ii] = v1)
                        \/ (g1 < g2 /\ (((v2 - v1) * (tt - g1)) % (g2 - g1) # 0
                                        \/ e.got[ii] = v1 + ((v2 - v1) * (tt - g1)) \div (g2 - g1)))

(* C20: a reader of a WeightedSum receives sum(value * weight) of what the *)
(* merger pulled for the requested time, in the units of the first value  *)
UFactor(u) == IF u = "km" THEN 1000 ELSE 1
WSumOK(cfg, e) ==
  LET c == e.c IN
  (Len(cfg.comps[c].ins) = 1 /\ cfg.comps[Src(cfg, <<c, 1>>)].ws /\ Chain(cfg, <<c, 1>>) = <<>>) =>
     LET lg == e.log IN
     (Len(lg) = 4 /\ \A k \in 1..4 : lg[k].ok) =>
        e.got[1] = lg[1].tok * UFactor(cfg.comps[Src(cfg, lg[1].l)].u) * lg[2].tok
                   + lg[3].tok * UFactor(cfg.comps[Src(cfg, lg[3].l)].u) * lg[4].tok

(* ... with weights read from static outputs (no requests logged for them): weight = the static source's only *)
(* publication                                                                                                 *)
WSumStaticOK(cfg, e) ==
  LET c == e.c IN
  (Len(cfg.comps[c].ins) = 1 /\ cfg.comps[Src(cfg, <<c, 1>>)].ws /\ Chain(cfg, <<c, 1>>) = <<>>) =>
     LET w == Src(cfg, <<c, 1>>)  lg == e.log IN
     (Len(cfg.comps[w].ins) = 4 /\ cfg.comps[Src(cfg, <<w, 2>>)].kind = "static" /\ cfg.comps[Src(cfg, <<w, 4>>)].kind = "static"
      /\ Len(lg) = 2 /\ lg[1].ok /\ lg[2].ok /\ Len(e.got) = 1) =>
        e.got[1] = lg[1].tok * UFactor(cfg.comps[Src(cfg, lg[1].l)].u) * (cfg.tb * Src(cfg, <<w, 2>>))
                   + lg[2].tok * UFactor(cfg.comps[Src(cfg, lg[2].l)].u) * (cfg.tb * Src(cfg, <<w, 4>>))

(* ... and that sum is the one for the requested time, whether or not the merger pulled for   *)
(* this request: value and weight of every pair are the publications nearest to the time the  *)
(* specification requests on that link (u.log), taken from the producers' full histories      *)
WSumCanonOK(cfg, st, e, u) ==
  LET c == e.c IN
  (Len(cfg.comps[c].ins) = 1 /\ cfg.comps[Src(cfg, <<c, 1>>)].ws /\ Chain(cfg, <<c, 1>>) = <<>>
   /\ Len(u.log) = 4 /\ (\A k \in 1..4 : u.log[k].ok /\ u.log[k].kind = "src") /\ Len(e.got) = 1) =>
     LET P(k) == Src(cfg, u.log[k].l)
         V(k) == {Tok(cfg, P(k), g) : g \in NearestSet(st.full[P(k)], u.log[k].t)}
     IN \E a \in V(1), b \in V(2), x \in V(3), y \in V(4) :
          e.got[1] = a * UFactor(cfg.comps[P(1)].u) * b + x * UFactor(cfg.comps[P(3)].u) * y

(* requests that a pull-based component made to its own inputs; a merger   *)
(* that memoises per request time may answer a repeated request without     *)
(* pulling again: its requests are then absent as a whole                   *)
ProviderPart(cfg, lg) == SelectSeq(lg, LAMBDA x : ~IsTime(cfg, x[2][1]))
ProviderOK(cfg, got, want) ==
  LET Skipped == {w \in Comps(cfg) : cfg.comps[w].ws /\ ~\E k \in 1..Len(got) : got[k][2][1] = w}
  IN got = SelectSeq(want, LAMBDA x : x[2][1] \notin Skipped)
ReadsMerger(cfg, c) == \E ii \in 1..Len(cfg.comps[c].ins) : cfg.comps[Src(cfg, <<c, ii>>)].ws

PubsEq(cfg, st, snap) ==
  \A c \in Comps(cfg) : snap.pubs[c] = st.pubs[c]
TimeEq(cfg, st, snap) ==
  \A c \in TimeComps(cfg) : snap.time[c] = st.time[c]

(* verdict of one update event against state st; u is EUpdate(cfg, st, c)  *)
UpdVerdict(cfg, st, e, u, k) ==
  LET c == e.c IN
  IF ~(c \in TimeComps(cfg)) THEN Fail("unknown-component", k)
  ELSE IF e.tb # st.time[c] THEN Fail("time-before", k)
  ELSE IF Finished(cfg, st, c) THEN Fail("updated-after-finished", k)
  ELSE IF ~MayUpdate(cfg, st) THEN Fail("no-late-update", k)
  ELSE IF ~AllowedChoice(cfg, st, c) THEN Fail("choice", k)
  \* updated although it (transitively) waits for itself: an unbroken cycle was not reported (C04)
  ELSE IF ~Available(cfg, st, c) THEN Fail(IF c \in LacksPlus(cfg, st, c) THEN "cycle-not-reported" ELSE "avail", k)
  ELSE IF e.ta # u.s.time[c] \/ e.ta <= e.tb THEN Fail("monotone", k)
  \* a refused pull; "-as-modelled": the specification's own update refuses a pull here as well (only the
  \* design-level defects recorded as known findings can do that), otherwise the refusal is the code's alone
  ELSE IF \E x \in 1..Len(e.log) : ~e.log[x].ok THEN Fail(IF u.ok THEN "served" ELSE "served-as-modelled", k)
  ELSE IF \E x \in 1..Len(e.nlog) : ~e.nlog[x].ok THEN Fail("served-notify", k)
  ELSE IF e.fail /\ ReadsMerger(cfg, c) THEN Fail("merger-raised", k)
  ELSE IF e.fail THEN Fail(IF u.ok THEN "update-raised" ELSE "update-raised-as-modelled", k)
  ELSE IF ~ProviderOK(cfg, ProviderPart(cfg, ProjLog(e.log)), ProviderPart(cfg, ProjLog(u.log))) THEN Fail("provider-time", k)
  ELSE IF ~ProviderOK(cfg, ProjLog(e.log), ProjLog(u.log)) THEN Fail("delay-shift", k)
  ELSE IF ProjSet(e.nlog) # ProjSet(u.nlog) THEN Fail("delay-shift-notify", k)
  ELSE IF ~CanonOK(cfg, st, e) THEN Fail("canon", k)
  ELSE IF ~BufCanonOK(cfg, st, e) THEN Fail("canon-buffered", k)
  ELSE IF ~WSumOK(cfg, e) \/ ~WSumCanonOK(cfg, st, e, u) \/ ~WSumStaticOK(cfg, e) THEN Fail("weighted-sum", k)
  \* every read of a static input delivers the static source's only publication
  ELSE IF "sins" \in DOMAIN cfg.comps[c] /\ e.sgot # [j \in 1..Len(cfg.comps[c].sins) |-> cfg.tb * cfg.comps[c].sins[j]]
       THEN Fail("static-input", k)
  ELSE IF ~TimeEq(cfg, u.s, e.snap) THEN Fail("times", k)
  ELSE IF ~PubsEq(cfg, u.s, e.snap) THEN Fail("retained", k)
  ELSE IF e.snap.stray # 0 THEN Fail("files-in-location", k)
  ELSE "ok"

(* life cycle: initialize, connect+, validate, update*, finalize *)
RECURSIVE LifeFrom(_, _, _)
LifeFrom(lf, k, st) ==       \* st: 0 start, 1 after I, 2 after C, 3 after V/U, 4 after F
  IF k > Len(lf) THEN st = 4
  ELSE LET x == lf[k] IN
       CASE st = 0 /\ x = "I" -> LifeFrom(lf, k + 1, 1)
         [] st = 1 /\ x = "C" -> LifeFrom(lf, k + 1, 2)
         [] st = 2 /\ x = "C" -> LifeFrom(lf, k + 1, 2)
         [] st = 2 /\ x = "V" -> LifeFrom(lf, k + 1, 3)
         [] st = 3 /\ x = "U" -> LifeFrom(lf, k + 1, 3)
         [] st = 3 /\ x = "F" -> LifeFrom(lf, k + 1, 4)
         [] OTHER -> FALSE
CountU(lf) == Cardinality({k \in 1..Len(lf) : lf[k] = "U"})

EndVerdict(cfg, st, en, k) ==
  IF en.out = "done" THEN
     IF ~AllReached(cfg, st) THEN Fail("end-reached", k)
     ELSE IF ~TimeEq(cfg, st, en) THEN Fail("final-times", k)
     ELSE IF \E c \in Comps(cfg) : ~LifeFrom(en.life[c], 1, 0) THEN Fail("lifecycle", k)
     ELSE IF \E c \in Comps(cfg) : CountU(en.life[c]) # st.idx[c] THEN Fail("update-count", k)
     ELSE IF \E c \in Comps(cfg) : en.status[c] # "finalized" THEN Fail("finalized", k)
     ELSE IF \E x \in 1..Len(en.fin) : en.fin[x][2] # 1 THEN Fail("adapters-finalized-once", k)
     ELSE IF en.files # 0 THEN Fail("no-files-after-finalize", k)
     ELSE "ok"
  ELSE IF en.out = "circ" THEN
     \* C04 allows the report from connect() as well as from run(); before the run only the zone can be judged
     IF en.stage # "run" THEN (IF cfg.zone \in {"dag", "resolved"} THEN Fail("false-cycle-zone", k) ELSE "ok")
     ELSE IF ~CycleReachable(cfg, st) THEN Fail("false-cycle", k)
     ELSE IF cfg.zone \in {"dag", "resolved"} THEN Fail("false-cycle-zone", k)
     ELSE "ok"
  ELSE IF en.out = "hang" THEN Fail("terminates", k)
  \* a consumer still needs what a finished producer will never publish: not a valid composition, the driver
  \* refuses to go on (without having updated the consumer: that would have been an "avail" rejection)
  ELSE IF en.out = "err:FinamTimeError" /\ en.stage = "run" /\ FinishedDependency(cfg, st) THEN "ok"
  ELSE Fail("other-error", k)

InitVerdict(cfg, st, ini) ==
  IF ~TimeEq(cfg, st, ini) THEN Fail("init-times", 0)
  ELSE IF ~PubsEq(cfg, st, ini) THEN Fail("init-publications", 0)
  ELSE "ok"

---------------------------------------------------------------------------
Init == /\ tid \in 1..Len(Traces)
        /\ i = 0
        /\ s = InitState(Traces[tid].cfg)
        /\ verdict = "ok"

Step ==
  /\ i <= NEv + 1
  /\ i' = i + 1
  /\ UNCHANGED tid
  /\ IF verdict # "ok" THEN UNCHANGED <<s, verdict>>
     ELSE IF i = 0 THEN
        /\ verdict' = (IF Tr.end.stage = "connect"
                       THEN (IF Tr.end.out = "circ" THEN "ok" ELSE Fail("connect-error", 0))
                       ELSE InitVerdict(Cfg, s, Tr.init))
        /\ s' = s
     ELSE IF i <= NEv THEN
        LET e == Tr.ev[i]
            ok == e.c \in TimeComps(Cfg)
            u == EUpdate(Cfg, s, e.c)
        IN /\ verdict' = UpdVerdict(Cfg, s, e, u, i)
           /\ s' = IF ok THEN u.s ELSE s
     ELSE
        /\ verdict' = EndVerdict(Cfg, s, Tr.end, i)
        /\ s' = s

Next == Step
Spec == Init /\ [][Next]_vars

Done == i = NEv + 2
(* verdict register: failing traces (register 2), number accepted (3)      *)
Collect ==
  Done => IF verdict = "ok" THEN TLCSet(3, TLCGet(3) + 1)
          ELSE TLCSet(2, TLCGet(2) \cup {<<tid, verdict>>})
SetUp == TLCSet(2, {}) /\ TLCSet(3, 0)
ASSUME SetUp
Report ==
  /\ PrintT(<<"ACCEPTED", TLCGet(3)>>)
  /\ PrintT(<<"TOTAL", Len(Traces)>>)
  /\ \A v \in TLCGet(2) : PrintT(<<"VERDICT", v[1], v[2]>>)

=============================================================================
