------------------------------- MODULE Connect -------------------------------
(* Composition._connect_components over families of dependency shapes.      *)
EXTENDS ConnectOps, ConnectFamilies, TLC
CONSTANT Families
VARIABLES cfg, s, pos, prog, unconn, rounds, ph    \* ph: "run" | "ok" | "stall"
vars == <<cfg, s, pos, prog, unconn, rounds, ph>>

Init == /\ \E f \in Families : cfg \in CSpace(f)
        /\ s = S0(cfg) /\ pos = 1 /\ prog = FALSE /\ unconn = FALSE /\ rounds = 0 /\ ph = "run"

N == Len(cfg.comps)
StepCall ==
  /\ ph = "run" /\ pos <= N
  /\ LET c == cfg.order[pos] IN
       IF s.st[c] = "connected" THEN UNCHANGED <<s, prog, unconn>>
       ELSE LET r == Call(cfg, s, c) IN
            /\ s' = r.s
            /\ prog' = (prog \/ r.s.st[c] \in {"connected", "connecting"})
            /\ unconn' = (unconn \/ r.s.st[c] # "connected")
  /\ pos' = pos + 1 /\ UNCHANGED <<cfg, rounds, ph>>
RoundEnd ==
  /\ ph = "run" /\ pos = N + 1
  /\ ph' = IF ~unconn THEN "ok" ELSE IF ~prog THEN "stall" ELSE "run"
  /\ pos' = 1 /\ prog' = FALSE /\ unconn' = FALSE /\ rounds' = rounds + 1
  /\ UNCHANGED <<cfg, s>>
Next == StepCall \/ RoundEnd
Spec == Init /\ [][Next]_vars /\ WF_vars(Next)

Terminates == <>(ph # "run")
RoundBound == rounds <= 5 * N + 2
(* success exactly when the dependencies are acyclic (every item derivable) *)
SuccessIffAcyclic == (ph = "ok" => StuckSet(cfg) = {}) /\ (ph = "stall" => StuckSet(cfg) # {})
(* the stall report lists exactly the components that can not complete      *)
StallSetExact == ph = "stall" => {c \in Comps(cfg) : s.st[c] # "connected"} = StuckSet(cfg)
ConnectedOnlyWhenComplete == \A c \in Comps(cfg) : s.st[c] = "connected" => Complete(cfg, s, c)
(* nothing is ever achieved that the dependencies do not allow *)
WithinLFP ==
  \A c \in Comps(cfg) : /\ (s.inX[c] => <<c, "inX">> \in LFP(cfg))
                        /\ (s.inD[c] => <<c, "inD">> \in LFP(cfg))
                        /\ ((s.outP[c] /\ cfg.comps[c].hasout) => <<c, "outP">> \in LFP(cfg))
                        /\ (s.outX[c] => <<c, "outX">> \in LFP(cfg))
                        /\ (s.outD[c] => <<c, "outD">> \in LFP(cfg))
InitialDataPublished ==
  ph = "ok" => \A c \in Comps(cfg) : cfg.comps[c].hasout => s.pubs[c] = InitialPubs(cfg.comps[c])
NeverGuess == \A c \in Comps(cfg) : s.pubV[c] # "guess"
NeverStall == ph # "stall"
NeverOk == ph # "ok"
=============================================================================
