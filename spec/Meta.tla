-------------------------------- MODULE Meta --------------------------------
(* C07: metadata exchange over one link (Output.get_info, Input.exchange_   *)
(* info, Info.accepts, masks_compatible).  Fields take abstract values:     *)
(*   time  "none" | "t"                                                     *)
(*   grid  "none" | "g" | "g2" | "g3" | "g4" (same geometry, other layouts:  *)
(*         axes order reversed / x stored decreasing / y stored decreasing) | "l" | "lr" (a *)
(*         one-dimensional grid stored in increasing / decreasing order) | "h" (other       *)
(*         geometry) | "gc" (the node coordinates of g in another           *)
(*         coordinate reference system) | "nogrid"                          *)
(*   units additionally "ms", "kms", "s2": products with seconds, as the    *)
(*         units-rewriting SumOverTime adapter produces them                *)
(*   units "none" | "m" | "km" | "s"                                        *)
(*   mask  "flex" | "nomask" (Mask.NONE) | "M" | "N" (two different masks,  *)
(*         each expressed in the layout of the info's own grid) | "E" (a    *)
(*         fixed mask without any masked cell, as an all-False array) |     *)
(*         "E0" (the same as numpy's nomask constant)                       *)
(*   foo   further metadata entry: "absent" | "none" | "v" | "w"            *)
(* A case is [po, ci, via]: producer output info, consumer input info, and  *)
(* whether the link is direct or through a pass-through adapter.            *)
EXTENDS FinamBase, TLC

Info(t, g, u, m, f) == [time |-> t, grid |-> g, units |-> u, mask |-> m, foo |-> f]
GridOK(i) == (i.mask \in {"M", "N", "E", "X"}) => i.grid \in {"g", "g2", "g3", "g4", "h", "gc", "l", "lr"}     \* a fixed mask presupposes a structured grid
PInfos == {i \in {Info(t, g, u, m, f) : t \in {"none", "t"}, g \in {"none", "g", "g2", "g3", "h", "gc", "nogrid", "l"},
                    u \in {"none", "m", "km", "s"}, m \in {"flex", "nomask", "M", "N", "E", "E0"}, f \in {"absent", "none", "v"}} : GridOK(i)}
CInfos == {i \in {Info(t, g, u, m, f) : t \in {"none", "t"}, g \in {"none", "g", "g2", "g4", "h", "gc", "nogrid", "lr"},
                    u \in {"none", "m", "km", "s"}, m \in {"flex", "nomask", "M", "N", "E", "E0"}, f \in {"absent", "none", "v", "w"}} : GridOK(i)}

SameLocations(a, b) == a = b \/ {a, b} \subseteq {"g", "g2", "g3", "g4"} \/ {a, b} \subseteq {"l", "lr"}
Dim(u) == CASE u = "s" -> "time" [] u \in {"ms", "kms"} -> "length*time" [] u = "s2" -> "time2" [] OTHER -> "length"
TimesS(u) == CASE u = "m" -> "ms" [] u = "km" -> "kms" [] u = "s" -> "s2" [] OTHER -> u
(* "X": a third fixed mask, different from M and N (what the producer's mask ARRAY means when the very same *)
(* object is handed to a consumer whose grid stores the same cells in another order)                        *)
Specified(m) == m \in {"M", "N", "E", "E0", "X"}
NormMask(m) == IF m = "E0" THEN "E" ELSE m

(* masks_compatible *)
MasksCompatible(up, down) ==
  IF ~Specified(down) THEN (IF ~Specified(up) THEN down = "flex" \/ up = "nomask" ELSE down = "flex")
  ELSE Specified(up) /\ NormMask(up) = NormMask(down)

(* Info.accepts(self, incoming); downstream: the incoming info is the consumer's request *)
Accepts(self, inc, downstream) ==
  LET gridOK == self.grid = "none" \/ SameLocations(self.grid, inc.grid) \/ (downstream /\ inc.grid = "none")
      up == IF downstream THEN self.mask ELSE inc.mask
      down == IF downstream THEN inc.mask ELSE self.mask
      maskOK == MasksCompatible(up, down)
      unitsOK == self.units = "none" \/ (inc.units # "none" /\ Dim(self.units) = Dim(inc.units))
                 \/ (downstream /\ inc.units = "none")
  IN gridOK /\ maskOK /\ unitsOK

(* the exchange as coded: [res, out, inp] *)
Exchange(po, ci) ==
  IF ~Accepts(po, ci, TRUE) THEN [res |-> "FinamMetaDataError", out |-> po, inp |-> ci]
  ELSE IF (po.grid = "none" /\ ci.grid = "none") \/ (po.time = "none" /\ ci.time = "none")
          \/ (po.units = "none" /\ ci.units = "none") \/ (po.foo = "none" /\ ci.foo \in {"absent", "none"})
       THEN [res |-> "FinamMetaDataError", out |-> po, inp |-> ci]
  ELSE LET out == [po EXCEPT !.grid = IF @ = "none" THEN ci.grid ELSE @,
                             !.time = IF @ = "none" THEN ci.time ELSE @,
                             !.units = IF @ = "none" THEN ci.units ELSE @,
                             !.foo = IF @ = "none" THEN ci.foo ELSE @]
       IN IF ~Accepts(ci, out, FALSE) THEN [res |-> "FinamMetaDataError", out |-> out, inp |-> ci]
          ELSE [res |-> "ok", out |-> out,
                inp |-> [time |-> IF ci.time = "none" THEN out.time ELSE ci.time,
                         grid |-> IF ci.grid = "none" THEN out.grid ELSE ci.grid,
                         units |-> IF ci.units = "none" THEN out.units ELSE ci.units,
                         mask |-> out.mask,
                         foo |-> IF ci.foo \in {"absent", "none"} THEN out.foo ELSE ci.foo]]

(* the statement: conflicts and unfillable fields *)
GridConflict(po, ci) == po.grid # "none" /\ ci.grid # "none" /\ ~SameLocations(po.grid, ci.grid)
UnitsConflict(po, ci) == po.units # "none" /\ ci.units # "none" /\ Dim(po.units) # Dim(ci.units)
MaskConflict(po, ci) ==
  CASE ci.mask = "flex" -> FALSE
    [] ci.mask = "nomask" -> po.mask # "nomask"
    [] OTHER -> ~Specified(po.mask) \/ NormMask(po.mask) # NormMask(ci.mask)
Unfillable(po, ci) == (po.grid = "none" /\ ci.grid = "none") \/ (po.time = "none" /\ ci.time = "none")
                      \/ (po.units = "none" /\ ci.units = "none") \/ (po.foo = "none" /\ ci.foo \in {"absent", "none"})

(* case space: PInfos x CInfos x {direct, pass} (the harness forms the product of the emitted factors) *)
(* through SumOverTime(per_time=True): upstream is asked without units, downstream gets the  *)
(* producer's units times seconds                                                             *)
ExchangeSum(po, ci) ==
  LET up == Exchange(po, [ci EXCEPT !.units = "none"]) IN
  IF up.res # "ok" THEN up
  ELSE LET ad == [up.out EXCEPT !.units = TimesS(@)] IN
       IF ci.units # "none" /\ Dim(ci.units) # Dim(ad.units) THEN [res |-> "FinamMetaDataError", out |-> up.out, inp |-> ci]
       ELSE [res |-> "ok", out |-> up.out,
             inp |-> [up.inp EXCEPT !.units = IF ci.units = "none" THEN ad.units ELSE ci.units]]

(* two consumers on one output: the second is checked against what the first filled in *)
Exchange2(po, c1, c2) ==
  LET r1 == Exchange(po, c1) IN
  IF r1.res # "ok" THEN [res |-> r1.res, out |-> r1.out, inp1 |-> r1.inp, inp2 |-> c2]
  ELSE LET r2 == Exchange(r1.out, c2) IN [res |-> r2.res, out |-> r2.out, inp1 |-> r1.inp, inp2 |-> r2.inp]
=============================================================================
