INIT Init
NEXT Next
