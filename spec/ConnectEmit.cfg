INIT Init
NEXT Next
