------------------------------ MODULE MetaNeg ------------------------------
(* C07 over the rounds of the iterative connect: ONE output whose info has  *)
(* unset fields negotiates with SEVERAL consumers that exchange at          *)
(* different moments (different connect rounds, any order), while the       *)
(* producing component may hand its output info to try_connect again in     *)
(* every connect call (a fresh Info object each time).                      *)
(*                                                                          *)
(* State: the output's negotiated info (Output._output_info), who has       *)
(* exchanged, what every input ended with, the outcome.  Actions are the    *)
(* linearisation points of the code: Exch(k) = Input.exchange_info ->       *)
(* Output.get_info of consumer k; PCall = a connect call of the producer    *)
(* that passes push_infos again (ConnectHelper._push).  In the intended     *)
(* design PCall leaves the negotiated info alone; Variant = "repush" is the *)
(* negative control (an info given again replaces the negotiated one until  *)
(* all consumers have exchanged).                                           *)
EXTENDS MetaNegOps

CONSTANT Variant, NCons, Wide
VARIABLES cfg, s

NoFoo == "absent"
(* producer infos with unset fields; consumer infos *)
NegP == {i \in {Info(t, g, u, m, NoFoo) : t \in {"none", "t"}, g \in {"none", "g"}, u \in {"none", "m"},
                 m \in (IF Wide THEN {"flex", "nomask", "M"} ELSE {"flex", "M"})} : GridOK(i)}
NegC == {i \in {Info(t, g, u, m, NoFoo) : t \in {"t"}, g \in {"none", "g", "g2", "h"}, u \in {"none", "m", "km", "s"},
                 m \in (IF Wide THEN {"flex", "nomask", "M", "N"} ELSE {"flex", "M"})} : GridOK(i)}

Cfgs == {[po |-> p, cs |-> c, fresh |-> f] : p \in NegP, c \in [1..NCons -> NegC], f \in BOOLEAN}

All == 1..NCons
Init == /\ cfg \in Cfgs
        /\ s = St0(cfg)

Exch(k) == /\ s.res = "run" /\ k \notin s.done
           /\ s' = EExch(s, cfg, k) /\ UNCHANGED cfg

(* the producer passes its output info again *)
PCall == /\ cfg.fresh /\ s.res = "run" /\ Variant = "repush" /\ ~s.repushed
         /\ s' = ERepush(s, cfg) /\ UNCHANGED cfg

Next == (\E k \in All : Exch(k)) \/ PCall
vars == <<cfg, s>>
Spec == Init /\ [][Next]_vars /\ WF_vars(Next)

(* ---- the statement -------------------------------------------------------- *)
(* C07, first sentence: after a successful connect both ends of EVERY link agree *)
Agreement == s.res = "ok" => \A k \in All : LinkAgrees(s.out, s.inp[k], cfg.cs[k])

(* C07, second sentence: incompatible ends are rejected, whoever exchanges first *)
AnyConflict == \/ \E k \in All : PairConflict(cfg.po, cfg.cs[k]) \/ MaskConflict(cfg.po, cfg.cs[k])
               \/ \E i, j \in All : i # j /\ PairConflict(cfg.cs[i], cfg.cs[j])
ConflictRejected == AnyConflict => s.res # "ok"

(* what the output has agreed on is never taken back *)
Negotiated == [][\A f \in {"time", "grid", "units"} : s.out[f] # "none" => s'.out[f] = s.out[f]]_vars

(* filled fields come from a consumer or from the producer, never from nowhere *)
Provenance == \A f \in {"grid", "units"} : s.out[f] \in {cfg.po[f]} \cup {cfg.cs[k][f] : k \in All}

(* without conflicts and with every field given by the producer or by ALL consumers, every order succeeds *)
Fillable == \A f \in {"time", "grid", "units"} : cfg.po[f] # "none" \/ \A k \in All : cfg.cs[k][f] # "none"
Ends == <>(s.res # "run")
SucceedsWhenPossible == (~AnyConflict /\ Fillable) => <>(s.res = "ok")

(* vacuity guards: must be violated *)
NeverOk == s.res # "ok"
NeverErr == s.res # "FinamMetaDataError"
NeverFilled == ~(s.res = "ok" /\ cfg.po.units = "none" /\ cfg.po.grid = "none")
=============================================================================
