SPECIFICATION Spec
CONSTRAINT Collect
POSTCONDITION Report
CHECK_DEADLOCK FALSE
