INIT Init
NEXT Next
