---- MODULE MetaNeg_Trace ----
(* one trace = one real Composition.connect(): cfg = [po, cs, fresh, ...], ev = the exchanges  *)
(* in the order in which they happened ([k, res, inp]), end = [res, out, inps].  The monitor    *)
(* advances the state of MetaNeg.tla with the same EExch operator and evaluates the C07 clauses *)
(* on the observed infos.                                                                       *)
EXTENDS MetaNegOps, Json, IOUtils, TLC
Traces == ndJsonDeserialize(IOEnv.TRACE_FILE)
VARIABLES tid, verdict
Proj(i) == [time |-> i.time, grid |-> i.grid, units |-> i.units, mask |-> i.mask, foo |-> i.foo]
Obs(i) == [Proj(i) EXCEPT !.mask = NormMask(@)]
Exp(i) == [i EXCEPT !.mask = NormMask(@)]
At(name, i) == name \o "@" \o ToString(i)
Cfg(t) == [po |-> Proj(t.cfg.po), cs |-> [k \in DOMAIN t.cfg.cs |-> Proj(t.cfg.cs[k])], fresh |-> t.cfg.fresh]

Strict == "FV_STRICT" \in DOMAIN IOEnv /\ IOEnv.FV_STRICT = "1"
(* what an input holds after exchanging ci with an output that then holds out *)
InpFrom(ci, out) == [time |-> IF ci.time = "none" THEN out.time ELSE ci.time,
                     grid |-> IF ci.grid = "none" THEN out.grid ELSE ci.grid,
                     units |-> IF ci.units = "none" THEN out.units ELSE ci.units,
                     mask |-> out.mask, foo |-> IF ci.foo \in {"absent", "none"} THEN out.foo ELSE ci.foo]
Flds == {"time", "grid", "units"}
(* The monitor follows the OBSERVED negotiated info (prev = what the output held after the previous  *)
(* exchange), so every clause is a statement about one exchange or about the final slots:            *)
(*  meta-conflict-accepted  the output's current info and the consumer's info conflict (or a field   *)
(*                          stays unfillable) and the exchange went through                           *)
(*  meta-outcome            compatible infos were refused / other error class                         *)
(*  meta-filled-output      a field the output had left unset does not carry this consumer's value    *)
(*  meta-filled-input       a field the consumer had left unset does not carry the output's value     *)
(*  link-disagrees          C07's first sentence on the two ends of a link                            *)
(*  negotiated-info-replaced (FV_STRICT only) a field the output had already agreed on changed        *)
RECURSIVE Walk(_, _, _, _, _)
Walk(prev, done, c, evs, i) ==
  IF i > Len(evs) THEN [res |-> IF done = DOMAIN c.cs THEN "ok" ELSE "run", v |-> "ok"]
  ELSE LET e == evs[i]  ci == c.cs[e.k]  r == Exchange(prev, ci)  o == Obs(e.out) IN
       IF e.k \in done THEN [res |-> "run", v |-> At("exchange-twice", i)]
       ELSE IF r.res # "ok"
            THEN (IF e.res = "err:FinamMetaDataError"
                  THEN (IF i = Len(evs) THEN [res |-> "FinamMetaDataError", v |-> "ok"] ELSE [res |-> "run", v |-> At("exchange-after-end", i + 1)])
                  ELSE [res |-> "run", v |-> At("meta-conflict-accepted", i)])
       ELSE IF e.res # "ok" THEN [res |-> "run", v |-> At("meta-outcome", i)]
       ELSE IF \E f \in Flds : prev[f] = "none" /\ o[f] # ci[f] THEN [res |-> "run", v |-> At("meta-filled-output", i)]
       ELSE IF Strict /\ o # Exp(r.out) THEN [res |-> "run", v |-> At("negotiated-info-replaced", i)]
       ELSE IF ~LinkAgrees(o, Obs(e.inp), ci) THEN [res |-> "run", v |-> At("link-disagrees", i)]
       ELSE IF Obs(e.inp) # Exp(InpFrom(ci, o)) THEN [res |-> "run", v |-> At("meta-filled-input", i)]
       ELSE Walk(o, done \cup {e.k}, c, evs, i + 1)

Verdict(t) ==
  LET c == Cfg(t)  w == Walk(Exp(c.po), {}, c, t.ev, 1)  n == Len(t.ev) + 1 IN
  IF w.v # "ok" THEN w.v
  ELSE IF w.res = "FinamMetaDataError" THEN (IF t.end.res = "err:FinamMetaDataError" THEN "ok" ELSE At("meta-conflict-accepted", n))
  ELSE IF w.res = "run" THEN (IF t.end.res = "ok" THEN At("connected-without-exchange", n) ELSE At("meta-outcome", n))
  ELSE IF t.end.res # "ok" THEN At("meta-outcome", n)
  (* the statement itself, on what the real slots hold after connect *)
  ELSE IF \E k \in DOMAIN c.cs : ~LinkAgrees(Obs(t.end.out), Obs(t.end.inps[k]), c.cs[k]) THEN At("link-disagrees", n)
  ELSE IF \E k \in DOMAIN c.cs : Obs(t.end.inps[k]) # Exp(InpFrom(c.cs[k], Obs(t.end.out))) THEN At("meta-filled-input", n)
  ELSE IF \E f \in {"grid", "units"} : Obs(t.end.out)[f] \notin {c.po[f]} \cup {c.cs[k][f] : k \in DOMAIN c.cs} THEN At("meta-filled-output", n)
  ELSE "ok"
TInit == tid \in 1..Len(Traces) /\ verdict = Verdict(Traces[tid])
TNext == FALSE /\ UNCHANGED <<tid, verdict>>
TSpec == TInit /\ [][TNext]_<<tid, verdict>>
Collect == IF verdict = "ok" THEN TLCSet(3, TLCGet(3) + 1) ELSE TLCSet(2, TLCGet(2) \cup {<<tid, verdict>>})
ASSUME TLCSet(2, {}) /\ TLCSet(3, 0)
Report == /\ PrintT(<<"ACCEPTED", TLCGet(3)>>) /\ PrintT(<<"TOTAL", Len(Traces)>>)
          /\ \A v \in TLCGet(2) : PrintT(<<"VERDICT", v[1], v[2]>>)
====
