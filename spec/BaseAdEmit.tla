---- MODULE BaseAdEmit ----
EXTENDS BaseAd, Json, IOUtils
ASSUME ndJsonSerialize(IOEnv.OUT_FILE, SetToSeq(Cases))
VARIABLE x
Init == x = 0
Next == UNCHANGED x
====
