------------------------------- MODULE OutBuf -------------------------------
(* Nondeterministic model of one output with its end points: any           *)
(* interleaving of publications (increasing times) and per-consumer pulls  *)
(* (non-decreasing times, any tick in range, plus out-of-range probes).    *)
(* hist records the operations with their results; hidden from the         *)
(* exhaustive run by VIEW, printed as JSON at depth MaxLen in the script   *)
(* generation run (OutBuf_Gen.cfg) for replay on the real code.            *)
EXTENDS OutBufOps, TLC, Json

CONSTANTS MaxLen, MaxPub, Gaps, CfgSet
VARIABLES cfg, st, hist
vars == <<cfg, st, hist>>
view == <<cfg, st>>

P == [k \in 1..0 |-> 0]
Cfgs ==
  CASE CfgSet = "one"   -> {[kinds |-> <<"direct">>, limit |-> l, size |-> 8, pay |-> "scalar", static |-> FALSE] : l \in {None, 0, 8, 20}}
    [] CfgSet = "two"   -> {[kinds |-> ks, limit |-> l, size |-> 8, pay |-> "scalar", static |-> FALSE] :
                              ks \in {<<"direct", "direct">>, <<"direct", "pass">>, <<"direct", "buffer">>,
                                      <<"buffer", "pass">>, <<"pass", "shared">>, <<"tpass", "shared">>, <<"dbuffer", "direct">>, <<"dbuffer", "buffer">>},
                              l \in {None, 0, 7, 8, 16}}
    [] CfgSet = "three" -> {[kinds |-> ks, limit |-> l, size |-> 8, pay |-> "scalar", static |-> FALSE] :
                              ks \in {<<"direct", "pass", "direct">>, <<"direct", "buffer", "pass">>,
                                      <<"buffer", "buffer", "direct">>, <<"pass", "shared", "direct">>, <<"pass", "shared", "shared">>,
                                      <<"tpass", "shared", "direct">>},
                              l \in {None, 15}}
    [] CfgSet = "masked" -> {[kinds |-> ks, limit |-> l, size |-> 16, pay |-> py, static |-> FALSE] :
                              ks \in {<<"direct">>, <<"direct", "pass">>, <<"direct", "buffer">>},
                              l \in {None, 0, 16, 31, 32}, py \in {"masked", "maskedempty"}}
    [] CfgSet = "static" -> {[kinds |-> ks, limit |-> l, size |-> 8, pay |-> "scalar", static |-> TRUE] :
                              ks \in {<<"direct">>, <<"direct", "pass">>, <<"direct", "direct", "pass">>},
                              l \in {None, 0, 8}}
    [] CfgSet = "four"  -> {[kinds |-> <<"direct", "pass", "buffer", "direct">>, limit |-> l, size |-> 8, pay |-> "scalar", static |-> FALSE] : l \in {None, 9}}

Init == cfg \in Cfgs /\ st = St0(cfg) /\ hist = <<>>

NPub == Len(st.full)
NewestT == IF st.full = <<>> THEN -1 ELSE Last(st.full).t

DoPush ==
  /\ NPub < MaxPub /\ ~st.fin
  /\ \E g \in Gaps :
       LET t == IF st.full = <<>> \/ cfg.static THEN 0 ELSE NewestT + g
       IN /\ st' = Push(cfg, st, t, NPub + 1).st
          /\ hist' = Append(hist, [op |-> "push", k |-> 0, t |-> t, id |-> NPub + 1])

(* request times: any tick from the consumer's last request (or one below  *)
(* the oldest retained entry) to one beyond the newest publication         *)
ReqTimes(k) ==
  LET lo == IF st.last[k] # None THEN st.last[k]
            ELSE IF st.pubs = <<>> THEN 0 ELSE Max2(0, st.pubs[1].t - 1)
  IN IF cfg.static THEN {None, 0, 3} ELSE lo..(NewestT + 1)

DoGet ==
  /\ ~st.fin
  /\ \E k \in Targets(cfg) : cfg.kinds[k] \notin {"buffer", "dbuffer"} /\
       \E t \in ReqTimes(k) :
          LET r == Get(cfg, st, k, t)
          IN /\ st' = r.st
             /\ hist' = Append(hist, [op |-> "get", k |-> k, t |-> t, id |-> 0])

DoFinalize ==      \* finalisation is state independent: explored as the last operation only
  /\ ~st.fin /\ Len(hist) = MaxLen - 1 /\ st' = Finalize(st)
  /\ hist' = Append(hist, [op |-> "fin", k |-> 0, t |-> 0, id |-> 0])

Next == /\ Len(hist) < MaxLen
        /\ (DoPush \/ DoGet \/ DoFinalize)
        /\ UNCHANGED cfg
Spec == Init /\ [][Next]_vars

InvServe == ~st.fin => ServeAsUnlimited(cfg, st)
InvBound == ~st.fin => Bound(cfg, st)
InvAccounting == Accounting(cfg, st)
(* the inductive invariant of the set-based abstraction spec/apalache/OutBufInd.tla (proved  *)
(* there for arbitrary integer times with Apalache) holds in every state of this model under *)
(* the projection full/kept = sets of times, last = last requests (None = never)             *)
AbsFull == {st.full[i].t : i \in 1..Len(st.full)}
AbsKept == {st.pubs[i].t : i \in 1..Len(st.pubs)}
InvAbsInd == (~st.fin /\ ~cfg.static) =>
  /\ AbsKept \subseteq AbsFull
  /\ \A a \in AbsFull, b \in AbsKept : a >= b => a \in AbsKept
  /\ (AbsFull # {} => AbsKept # {})
  /\ ((\E k \in Targets(cfg) : st.last[k] = None) => AbsKept = AbsFull)
  /\ \A k \in Targets(cfg) : st.last[k] # None => \E a \in AbsKept : a <= st.last[k]
(* a refused request changes nothing; a served one never returns nothing *)
InvGetTotal == ~st.fin =>
  \A k \in Targets(cfg) : \A t \in ReqTimes(k) :
     LET r == Get(cfg, st, k, t) IN
       /\ (r.err # "") => r.st = st
       /\ (r.err = "") => r.ids # {}

(* script generation: print every maximal history *)
Emit == (Len(hist) = MaxLen) => PrintT(<<"SCRIPT", ToJson([cfg |-> cfg, ops |-> hist])>>)

=============================================================================
