----------------------------- MODULE ConnectOps -----------------------------
(* The iterative connect phase: Composition._connect_components calling     *)
(* Component.connect round-robin, ConnectHelper.connect's attempt order.    *)
(*                                                                          *)
(* cfg.comps[c] = [hasin, src, inown, pull, hasout, outown, data, off]      *)
(*   one optional input (fed by the output of component src) and one        *)
(*   optional output per component                                          *)
(*   inown   the input has its metadata from the start; otherwise it is     *)
(*           derived from the component's own output (FromOutput rule)      *)
(*   outown  the output has its metadata from the start; otherwise it is    *)
(*           derived from the input (FromInput rule) or, with oprov, passed *)
(*           by the component itself to every try_connect call              *)
(*   pull    the input is pulled initially                                  *)
(*   data    when the component can provide its initial output data:        *)
(*           "imm" at once | "pulled" after its initial pull | "ininfo"     *)
(*           once its input metadata is known                               *)
(*   off     start offset of the component (0 = composition start)          *)
(*   refine  with data = "imm": supplies a guess until its own pull is done  *)
(* cfg.order listing order.                                                 *)
(* s.st[c] "init" | "connecting" | "idle" | "connected";  flags per         *)
(* component: inX (input metadata exchanged), inD (initial data pulled),    *)
(* outP (output metadata pushed), outX (output metadata exchanged with all  *)
(* targets), outD (initial data published), caches inC, outC, dC;           *)
(* pubs[c] publication times of the output.                                 *)
EXTENDS FinamBase

Comps(cfg) == 1..Len(cfg.comps)
Targets(cfg, c) == {d \in Comps(cfg) : cfg.comps[d].hasin /\ cfg.comps[d].src = c}

S0(cfg) ==
  [st   |-> [c \in Comps(cfg) |-> "init"],
   inX  |-> [c \in Comps(cfg) |-> FALSE], inD  |-> [c \in Comps(cfg) |-> FALSE],
   outP |-> [c \in Comps(cfg) |-> cfg.comps[c].hasout /\ cfg.comps[c].outown],
   outX |-> [c \in Comps(cfg) |-> FALSE], outD |-> [c \in Comps(cfg) |-> FALSE],
   inC  |-> [c \in Comps(cfg) |-> FALSE], outC |-> [c \in Comps(cfg) |-> FALSE],
   dC   |-> [c \in Comps(cfg) |-> FALSE],
   dV   |-> [c \in Comps(cfg) |-> "none"], pubV |-> [c \in Comps(cfg) |-> "none"],
   pubs |-> [c \in Comps(cfg) |-> <<>>]]

DataCond(k, s, c) ==
  CASE k.data = "imm"    -> TRUE
    [] k.data = "pulled" -> ~(k.hasin /\ k.pull) \/ s.inD[c]
    [] k.data = "ininfo" -> ~k.hasin \/ s.inX[c]

Complete(cfg, s, c) ==
  LET k == cfg.comps[c] IN
  /\ k.hasin => s.inX[c]
  /\ (k.hasin /\ k.pull) => s.inD[c]
  /\ k.hasout => (s.outP[c] /\ s.outX[c] /\ s.outD[c])

(* time of the initial publications: composition start, and the own start  *)
(* when later (ConnectHelper._push_data)                                   *)
(* the value a consumer pulls initially from component p *)
InitTok(cfg, s, p) == 1000 * p + cfg.comps[p].off + (IF s.pubV[p] = "guess" THEN 500 ELSE 0)
InitialPubs(k) == IF k.off > 0 THEN <<0, k.off>> ELSE <<0>>

(* one call of Component.connect for component c; returns [s, done]        *)
Call(cfg, s, c) ==
  LET k == cfg.comps[c] IN
  IF s.st[c] = "init" THEN [s |-> [s EXCEPT !.st[c] = "connecting"], done |-> TRUE]
  ELSE
    LET \* the component's _connect offers its data as soon as its condition holds
        \* (refine: a first guess before the own initial pull is done, the final value after it;
        \* a value supplied again replaces the cached one)
        supplied == IF k.hasout /\ ~s.outD[c] /\ DataCond(k, s, c)
                    THEN (IF k.refine /\ k.hasin /\ k.pull /\ ~s.inD[c] THEN "guess" ELSE "final") ELSE "none"
        dV1   == IF supplied # "none" THEN supplied ELSE s.dV[c]
        dC1   == s.dC[c] \/ supplied # "none"
        \* transfer rules, evaluated on what earlier calls achieved
        inC1  == s.inC[c] \/ (k.hasin /\ ~k.inown /\ ~s.inX[c] /\ k.hasout /\ s.outX[c])
        \* (oprov: the component itself supplies the output metadata with every call)
        outC1 == s.outC[c] \/ (k.hasout /\ ~k.outown /\ ~s.outP[c] /\ (k.oprov \/ (k.hasin /\ s.inX[c])))
        \* input metadata exchange
        inX1  == s.inX[c] \/ (k.hasin /\ (k.inown \/ inC1) /\ s.outP[k.src])
        dIn   == inX1 /\ ~s.inX[c]
        sA    == [s EXCEPT !.inX[c] = inX1]
        \* output metadata becomes available once every target has exchanged
        outX1 == s.outX[c] \/ (k.hasout /\ s.outP[c] /\ \A d \in Targets(cfg, c) : sA.inX[d])
        dOutX == outX1 /\ ~s.outX[c]
        \* push metadata, then data
        outP1 == s.outP[c] \/ outC1
        dOutP == outP1 /\ ~s.outP[c]
        outD1 == s.outD[c] \/ (k.hasout /\ dC1 /\ outP1 /\ outX1)
        dOutD == outD1 /\ ~s.outD[c]
        sB    == [sA EXCEPT !.outX[c] = outX1, !.outP[c] = outP1, !.outD[c] = outD1,
                            !.pubs[c] = IF dOutD THEN InitialPubs(k) ELSE @,
                            !.dV[c] = dV1, !.pubV[c] = IF dOutD THEN dV1 ELSE @]
        \* initial pull
        inD1  == s.inD[c] \/ (k.hasin /\ k.pull /\ inX1 /\ sB.outD[k.src])
        dInD  == inD1 /\ ~s.inD[c]
        sC    == [sB EXCEPT !.inD[c] = inD1, !.inC[c] = inC1 /\ ~inX1, !.outC[c] = outC1 /\ ~outP1,
                            !.dC[c] = dC1 /\ ~outD1]
        done  == dIn \/ dOutX \/ dOutP \/ dOutD \/ dInD
        st1   == IF Complete(cfg, sC, c) THEN "connected" ELSE IF done THEN "connecting" ELSE "idle"
    IN [s |-> [sC EXCEPT !.st[c] = st1], done |-> done]

---------------------------------------------------------------------------
(* Provenance of metadata through the transfer rules.  Every output that has its metadata   *)
(* from the start (outown) or from the component (oprov) declares otag = c; a derived       *)
(* output is described by the rule list <<FromInput("In"), FromValue("ovia", c)>>, a derived *)
(* input by <<FromOutput("Out"), FromValue("ivia", c)>>.  A whole-info rule copies; a value  *)
(* rule changes only the composed info, never the exchanged info it was composed from.      *)
(* The exchanged input info is the source's info overridden by what the input declared.     *)
(* <<otag, ovia, ivia>>, 0 = absent; fuel bounds the recursion (circular derivations stall) *)
NoMeta == <<0, 0, 0>>
Override(base, own) == [j \in 1..3 |-> IF own[j] # 0 THEN own[j] ELSE base[j]]
RECURSIVE OutM(_, _, _), InM(_, _, _)
OutM(cfg, c, fuel) ==
  LET k == cfg.comps[c] IN
  IF fuel = 0 THEN <<-1, -1, -1>>
  ELSE IF k.outown \/ k.oprov THEN <<c, 0, 0>>
  ELSE [InM(cfg, c, fuel - 1) EXCEPT ![2] = c]
InM(cfg, c, fuel) ==
  LET k == cfg.comps[c]
      own == IF k.inown THEN NoMeta ELSE [OutM(cfg, c, fuel - 1) EXCEPT ![3] = c]
  IN IF fuel = 0 THEN <<-1, -1, -1>> ELSE Override(OutM(cfg, k.src, fuel - 1), own)
Fuel(cfg) == 3 * Len(cfg.comps) + 2

---------------------------------------------------------------------------
(* Least fixpoint of the exchange dependencies, independent of any order *)
Items(cfg) == {<<c, f>> : c \in Comps(cfg), f \in {"inX", "inD", "outP", "outX", "outD"}}
Derivable(cfg, F, it) ==
  LET c == it[1] k == cfg.comps[c] IN
  CASE it[2] = "outP" -> k.hasout /\ (k.outown \/ k.oprov \/ (k.hasin /\ <<c, "inX">> \in F))
    [] it[2] = "inX"  -> k.hasin /\ (k.inown \/ (k.hasout /\ <<c, "outX">> \in F)) /\ <<k.src, "outP">> \in F
    [] it[2] = "outX" -> k.hasout /\ <<c, "outP">> \in F /\ \A d \in Targets(cfg, c) : <<d, "inX">> \in F
    [] it[2] = "outD" -> k.hasout /\ <<c, "outP">> \in F /\ <<c, "outX">> \in F /\
                         (CASE k.data = "imm" -> TRUE
                            [] k.data = "pulled" -> ~(k.hasin /\ k.pull) \/ <<c, "inD">> \in F
                            [] k.data = "ininfo" -> ~k.hasin \/ <<c, "inX">> \in F)
    [] it[2] = "inD"  -> k.hasin /\ k.pull /\ <<c, "inX">> \in F /\ <<k.src, "outD">> \in F
RECURSIVE LfpFrom(_, _, _)
LfpFrom(cfg, F, n) ==
  IF n = 0 THEN F
  ELSE LfpFrom(cfg, F \cup {it \in Items(cfg) : Derivable(cfg, F, it)}, n - 1)
LFP(cfg) == LfpFrom(cfg, {}, 5 * Len(cfg.comps) + 1)

Needed(cfg, c) ==
  LET k == cfg.comps[c] IN
  (IF k.hasin THEN {<<c, "inX">>} ELSE {}) \cup (IF k.hasin /\ k.pull THEN {<<c, "inD">>} ELSE {}) \cup
  (IF k.hasout THEN {<<c, "outP">>, <<c, "outX">>, <<c, "outD">>} ELSE {})
(* the components that can not complete *)
StuckSet(cfg) == {c \in Comps(cfg) : ~(Needed(cfg, c) \subseteq LFP(cfg))}

=============================================================================
