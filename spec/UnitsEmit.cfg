INIT Init
NEXT Next
