---- MODULE Topology_Trace ----
(* [case, obs]; obs = [res, pushes, nlinks]: outcome class of connect(), number of  *)
(* push_data calls that happened before it returned / raised, reported link count   *)
EXTENDS Topology, Json, IOUtils
Traces == ndJsonDeserialize(IOEnv.TRACE_FILE)
VARIABLES tid, verdict
Verdict(t) ==
  LET c == t.case o == t.obs IN
  IF ~Valid(c) THEN
     IF o.res # "err:FinamConnectError" THEN "validation-verdict@1"
     ELSE IF o.pushes # 0 THEN "validated-before-data@1" ELSE "ok"
  ELSE IF o.res = "err:FinamConnectError" THEN "validation-verdict@1"
  ELSE IF o.res = "ok" /\ o.nlinks # NLinks(c) THEN "links-exact@1"
  ELSE IF o.res = "ok" /\ ~o.linksok THEN "links-exact@1"
  ELSE "ok"
Init == tid \in 1..Len(Traces) /\ verdict = Verdict(Traces[tid])
Next == FALSE /\ UNCHANGED <<tid, verdict>>
Spec == Init /\ [][Next]_<<tid, verdict>>
Collect == IF verdict = "ok" THEN TLCSet(3, TLCGet(3) + 1) ELSE TLCSet(2, TLCGet(2) \cup {<<tid, verdict>>})
ASSUME TLCSet(2, {}) /\ TLCSet(3, 0)
Report == /\ PrintT(<<"ACCEPTED", TLCGet(3)>>) /\ PrintT(<<"TOTAL", Len(Traces)>>)
          /\ \A v \in TLCGet(2) : PrintT(<<"VERDICT", v[1], v[2]>>)
====
