-------------------------------- MODULE BaseAd --------------------------------
(* Growth beyond the listed properties: the metadata-rewriting base adapters   *)
(* Scale, ValueToGrid, GridToValue on a link (value and metadata flow).        *)
(* case = [ad, k, fn, ggiven, cgrid, vals, mask]                               *)
(*   ad "scale" | "v2g" | "g2v"; k scale factor; fn "sum" | "mean" (g2v);      *)
(*   ggiven: ValueToGrid knows its grid itself; cgrid: the consumer names the  *)
(*   grid ("g" | "h" (another grid) | "none"); vals: values of the 2x3 source  *)
(*   field (g2v) or <<v>>; mask: masked cells of the source field (g2v)        *)
EXTENDS FinamBase, TLC

Cases ==
  {[ad |-> "scale", k |-> k, fn |-> "", ggiven |-> FALSE, cgrid |-> "none", vals |-> <<v>>, mask |-> <<FALSE>>] :
     k \in {-2, 0, 3}, v \in {1, 7}} \cup
  {[ad |-> "v2g", k |-> 1, fn |-> "", ggiven |-> gg, cgrid |-> cg, vals |-> <<v>>, mask |-> <<FALSE>>] :
     gg \in BOOLEAN, cg \in {"g", "h", "none"}, v \in {1, 7}} \cup
  {[ad |-> "g2v", k |-> 1, fn |-> f, ggiven |-> FALSE, cgrid |-> "none", vals |-> vs, mask |-> m] :
     f \in {"sum", "mean"}, vs \in {<<1, 2, 3, 4, 5, 6>>, <<6, 6, 6, 0, 0, 0>>},
     m \in {<<FALSE, FALSE, FALSE, FALSE, FALSE, FALSE>>, <<TRUE, FALSE, FALSE, FALSE, FALSE, TRUE>>}}

Unmasked(c) == {i \in 1..Len(c.vals) : ~c.mask[i]}
RECURSIVE SumOver(_, _)
SumOver(c, S) == IF S = {} THEN 0 ELSE LET i == CHOOSE x \in S : TRUE IN c.vals[i] + SumOver(c, S \ {i})

(* [res, shape, val (rational, the value of every element), grid] *)
Expect(c) ==
  CASE c.ad = "scale" -> [res |-> "ok", shape |-> <<1>>, val |-> RInt(c.k * c.vals[1]), grid |-> "nogrid"]
    [] c.ad = "v2g" ->
         IF ~c.ggiven /\ c.cgrid = "none"       \* no grid known on either side: the value is passed on as it is
         THEN [res |-> "ok", shape |-> <<1>>, val |-> RInt(c.vals[1]), grid |-> "nogrid"]
         ELSE IF c.ggiven /\ c.cgrid = "h" THEN [res |-> "FinamMetaDataError", shape |-> <<>>, val |-> <<0, 1>>, grid |-> ""]
         ELSE [res |-> "ok", shape |-> IF ~c.ggiven /\ c.cgrid = "h" THEN <<1, 3, 2>> ELSE <<1, 2, 3>>,
               val |-> RInt(c.vals[1]), grid |-> IF ~c.ggiven /\ c.cgrid = "h" THEN "h" ELSE "g"]
    [] c.ad = "g2v" ->
         [res |-> "ok", shape |-> <<1>>,
          val |-> IF c.fn = "sum" THEN RInt(SumOver(c, Unmasked(c)))
                  ELSE RDiv(RInt(SumOver(c, Unmasked(c))), RInt(Cardinality(Unmasked(c)))),
          grid |-> "nogrid"]
=============================================================================
