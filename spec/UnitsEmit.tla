---- MODULE UnitsEmit ----
EXTENDS Units, Json, IOUtils
Out == IF IOEnv.WHAT = "seq" THEN SetToSeq(Seqs(0)) ELSE SetToSeq(Pairs(0))
ASSUME ndJsonSerialize(IOEnv.OUT_FILE, Out)
VARIABLE x
Init == x = 0
Next == UNCHANGED x
====
