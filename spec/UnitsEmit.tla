---- MODULE UnitsEmit ----
EXTENDS Units, Json, IOUtils
Out == IF IOEnv.WHAT = "seq" THEN SetToSeq(Seqs) ELSE SetToSeq(Pairs)
ASSUME ndJsonSerialize(IOEnv.OUT_FILE, Out)
VARIABLE x
Init == x = 0
Next == UNCHANGED x
====
