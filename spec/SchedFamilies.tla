--------------------------- MODULE SchedFamilies ---------------------------
(* Configuration families for the scheduler model: shape templates with    *)
(* small parameter sets, each enumerated completely.  The same sets are    *)
(* emitted as JSON (SchedEmit.tla) and executed on the real code.          *)
(* zone: "dag" (no cycle), "resolved" (every cycle carries fixed delays    *)
(* summing to at least the sum of the largest steps on it), "unbroken"     *)
(* (some cycle without any delay), "partial" (delays present but not       *)
(* known to suffice).                                                      *)
EXTENDS FinamBase, TLC

Ad(k, d, n, add, b) == [k |-> k, d |-> d, n |-> n, add |-> add, b |-> b]
Pass == Ad("pass", 0, 0, 0, "scale")
Fix(d) == Ad("fixed", d, 0, 0, "fixed")
ToPull(n, add) == Ad("topull", 0, n, add, "topull")
ToPush == Ad("topush", 0, 0, 0, "topush")
Buf(b) == Ad("buffer", 0, 0, 0, b)
Integ(b) == Ad("integ", 0, 0, 0, b)

TimeC(steps, off, ip, ins) == [kind |-> "time", steps |-> steps, off |-> off, ip |-> ip, ins |-> ins, u |-> "m", ws |-> FALSE]
TimeCU(steps, off, u) == [kind |-> "time", steps |-> steps, off |-> off, ip |-> FALSE, ins |-> <<>>, u |-> u, ws |-> FALSE]
PullC(ins) == [kind |-> "pull", steps |-> <<1>>, off |-> 0, ip |-> FALSE, ins |-> ins, u |-> "m", ws |-> FALSE]
SinkC(ins) == [kind |-> "sink", steps |-> <<1>>, off |-> 0, ip |-> FALSE, ins |-> ins, u |-> "m", ws |-> FALSE]
(* finam's WeightedSum merger: inputs value1, weight1, value2, weight2; pulls them initially *)
WSumC(ins) == [kind |-> "pull", steps |-> <<1>>, off |-> 0, ip |-> TRUE, ins |-> ins, u |-> "m", ws |-> TRUE]
Lk(src, chain) == [src |-> src, chain |-> chain]
MkCfg(comps, order, end, zone, fam) ==
  [comps |-> comps, order |-> order, end |-> end, zone |-> zone, fam |-> fam, tb |-> 1000]

MaxStep(st) == SetMax({st[i] : i \in 1..Len(st)})

StepSeqs == {<<1>>, <<2>>, <<3>>, <<1, 2>>, <<2, 1, 3>>}
StepSeqsS == {<<1>>, <<2>>, <<3>>, <<1, 2>>}
Steps1 == {<<1>>, <<2>>, <<3>>}
OffPairs == {<<0, 0>>, <<0, 1>>, <<1, 0>>, <<0, 2>>, <<2, 0>>}

Atoms == {Pass, Fix(1), Fix(2), Fix(3), ToPull(1, 0), ToPull(2, 1), ToPush,
          Buf("linear"), Integ("avg")}
AtomsS == {Pass, Fix(2), ToPull(1, 0), ToPush, Buf("linear")}
AtomsL == Atoms \cup {Fix(5), ToPull(1, 1), ToPull(3, 0), Buf("next"), Buf("prev"),
                      Buf("step"), Integ("sum")}
PullAtoms == {Pass, Fix(1), Fix(2), ToPull(1, 0), ToPush}      \* no push-based adapter behind a pull-only output

(* a delay adapter (each kind can repeat request times: DelayToPush while the source lags,  *)
(* DelayToPull during its first n requests, DelayFixed while clamped to the start) between  *)
(* the consumer and an integration adapter: integration adapters refuse zero-length periods *)
RepeatBelowInteg(ch) == \E i \in 1..Len(ch), j \in 1..Len(ch) : i < j /\ ch[i].k \in {"topush", "topull", "fixed"} /\ ch[j].k = "integ"
ChainsUpTo2(A) == {<<>>} \cup {<<a>> : a \in A} \cup {ch \in {<<a, b>> : a \in A, b \in A} : ~RepeatBelowInteg(ch)}
ChainsUpTo1(A) == {<<>>} \cup {<<a>> : a \in A}
Chains3(A) == {ch \in {<<a, b, c>> : a \in A, b \in A, c \in A} : ~RepeatBelowInteg(ch)}

Perms2 == {<<1, 2>>, <<2, 1>>}
Perms3 == {<<1, 2, 3>>, <<3, 2, 1>>, <<2, 3, 1>>}
Perms4 == {<<1, 2, 3, 4>>, <<4, 3, 2, 1>>, <<2, 4, 1, 3>>}

---------------------------------------------------------------------------
(* pair: A -> B through every chain of up to two adapters *)
Pair(SS, A, Ends) ==
  {MkCfg(<<TimeC(sa, o[1], FALSE, <<>>), TimeC(sb, o[2], ip, <<Lk(1, ch)>>)>>, ord, e, "dag", "pair") :
     sa \in SS, sb \in SS, o \in OffPairs, ip \in BOOLEAN, ch \in ChainsUpTo2(A),
     ord \in Perms2, e \in Ends}

(* pair3: A -> B through chains of exactly three adapters (thorough) *)
Pair3(u) ==
  {MkCfg(<<TimeC(sa, 0, FALSE, <<>>), TimeC(sb, 0, FALSE, <<Lk(1, ch)>>)>>, <<2, 1>>, 6, "dag", "pair3") :
     sa \in Steps1, sb \in Steps1, ch \in Chains3(Atoms)}

(* the excluded chains, as a family of their own (known finding C01-repeated-time-at-integration) *)
RepeatInteg(u) ==
  {MkCfg(<<TimeC(sa, 0, FALSE, <<>>), TimeC(sb, ob, FALSE, <<Lk(1, <<d, Integ(b)>>)>>)>>, ord, 7, "dag", "repeatinteg") :
     sa \in {<<2>>, <<5>>, <<5, 3>>}, sb \in {<<1>>, <<3>>, <<3, 1>>}, ob \in {0, 1}, d \in {ToPush, ToPull(2, 0), ToPull(3, 1), Fix(3)},
     b \in {"avg", "sum"}, ord \in Perms2}

(* chain3: P -> M -> C with M a time component or a pull-based component *)
Chain3T(u) ==
  {MkCfg(<<TimeC(sp, 0, FALSE, <<>>), TimeC(sm, om, FALSE, <<Lk(1, c1)>>),
           TimeC(sc, 0, ip, <<Lk(2, c2)>>)>>, ord, 6, "dag", "chain3t") :
     sp \in Steps1, sm \in StepSeqsS, sc \in Steps1 \cup {<<5>>}, om \in {0, 1}, ip \in BOOLEAN,
     c1 \in ChainsUpTo1(AtomsS), c2 \in ChainsUpTo1(AtomsS), ord \in Perms3}
Chain3P(u) ==
  {MkCfg(<<TimeC(sp, op, FALSE, <<>>), PullC(<<Lk(1, c1)>>),
           TimeC(sc, 0, ip, <<Lk(2, c2)>>)>>, ord, 6, "dag", "chain3p") :
     sp \in StepSeqsS, sc \in StepSeqsS \cup {<<5>>}, op \in {0, 1}, ip \in BOOLEAN,
     c1 \in ChainsUpTo1(Atoms), c2 \in ChainsUpTo1(PullAtoms), ord \in Perms3}

(* chain3d: P -> M through two delay adapters, M -> C with C of larger step (M is dragged ahead) *)
Chain3D(u) ==
  {MkCfg(<<TimeC(sp, 0, FALSE, <<>>), TimeC(sm, 0, FALSE, <<Lk(1, <<a, b>>)>>), TimeC(sc, 0, FALSE, <<Lk(2, <<>>)>>)>>,
         ord, 8, "dag", "chain3d") :
     sp \in {<<1>>, <<2>>}, sm \in {<<1>>, <<2>>}, sc \in {<<3>>, <<5>>},
     a \in {Fix(1), Fix(2), ToPull(1, 0), ToPull(2, 1)}, b \in {Fix(1), Fix(3), ToPull(1, 0), ToPull(2, 0)}, ord \in Perms3}

(* fan-in: two producers into one consumer, or one producer through two    *)
(* different chains into two inputs of one consumer                        *)
FanIn2(u) ==
  {MkCfg(<<TimeC(s1, 0, FALSE, <<>>), TimeC(s2, o2, FALSE, <<>>),
           TimeC(sc, 0, FALSE, <<Lk(1, c1), Lk(2, c2)>>)>>, ord, 6, "dag", "fanin2") :
     s1 \in Steps1, s2 \in Steps1, sc \in StepSeqsS, o2 \in {0, 1},
     c1 \in ChainsUpTo1(AtomsS), c2 \in ChainsUpTo1(AtomsS), ord \in Perms3}
FanIn1(u) ==
  {MkCfg(<<TimeC(s1, 0, FALSE, <<>>), TimeC(sc, oc, FALSE, <<Lk(1, c1), Lk(1, c2)>>)>>,
         ord, 6, "dag", "fanin1") :
     s1 \in StepSeqsS, sc \in StepSeqsS, oc \in {0, 1},
     c1 \in ChainsUpTo1(Atoms), c2 \in ChainsUpTo1(Atoms), ord \in Perms2}

(* fan-out: one producer, two consumers of different pace *)
FanOut(u) ==
  {MkCfg(<<TimeC(sp, 0, FALSE, <<>>), TimeC(s1, 0, FALSE, <<Lk(1, c1)>>),
           TimeC(s2, o2, FALSE, <<Lk(1, c2)>>)>>, ord, 6, "dag", "fanout") :
     sp \in Steps1, s1 \in StepSeqsS, s2 \in Steps1, o2 \in {0, 1},
     c1 \in ChainsUpTo1(AtomsS), c2 \in ChainsUpTo1(AtomsS), ord \in Perms3}
(* a fast reader behind an integration adapter next to a slow reader that drags the producer   *)
(* several steps ahead: how far ahead depends on the listing order, what is delivered must not *)
FanOutSum(u) ==
  {MkCfg(<<TimeC(<<1>>, 0, FALSE, <<>>), TimeC(s1, 0, FALSE, <<Lk(1, <<Integ(ik)>>)>>),
           TimeC(s2, 0, FALSE, <<Lk(1, c2)>>)>>, <<1, 2, 3>>, 8, "dag", "fanoutsum") :
     s1 \in {<<1>>, <<2>>}, s2 \in {<<3>>, <<4>>}, ik \in {"sum", "avg"}, c2 \in {<<>>, <<Buf("linear")>>}}
(* the two readers hang on ONE shared adapter chain (harness: cfg.shared) *)
FanOutShared(u) ==
  {MkCfg(<<TimeC(sp, op, FALSE, <<>>), TimeC(s1, 0, ip, <<Lk(1, ch)>>),
           TimeC(s2, o2, FALSE, <<Lk(1, ch)>>)>>, ord, 6, "dag", "fanoutshared") @@ [shared |-> TRUE] :
     sp \in Steps1, op \in {0, 1}, s1 \in StepSeqsS, s2 \in Steps1, o2 \in {0, 1}, ip \in BOOLEAN,
     ch \in {<<Pass>>, <<Fix(1)>>, <<Pass, Pass>>, <<Fix(2), Pass>>},
     ord \in {<<1, 2, 3>>, <<2, 1, 3>>, <<3, 2, 1>>, <<2, 3, 1>>}}
(* ... plus a third reader behind a push-based (no-branch) adapter on the same output *)
FanOut3Shared(u) ==
  {MkCfg(<<TimeC(sp, 0, FALSE, <<>>), TimeC(s1, 0, FALSE, <<Lk(1, ch)>>), TimeC(s2, o2, FALSE, <<Lk(1, ch)>>),
           TimeC(s3, 0, FALSE, <<Lk(1, <<Buf(bk)>>)>>)>>, ord, 6, "dag", "fanout3shared") @@ [shared |-> TRUE] :
     sp \in {<<1>>, <<2>>}, s1 \in {<<1>>, <<2>>}, s2 \in {<<1>>, <<3>>}, s3 \in {<<1>>, <<2>>}, o2 \in {0, 1},
     ch \in {<<Pass>>, <<Fix(1)>>}, bk \in {"linear", "next"}, ord \in Perms4}
(* fan-out behind a pull-based component (its single input is one end      *)
(* point of the producer's history)                                        *)
PullFanOut(u) ==
  {MkCfg(<<TimeC(sp, 0, FALSE, <<>>), PullC(<<Lk(1, <<>>)>>),
           TimeC(s1, 0, FALSE, <<Lk(2, <<>>)>>), TimeC(s2, 0, FALSE, <<Lk(2, c2)>>)>>,
         ord, 6, "dag", "pullfanout") :
     sp \in Steps1, s1 \in Steps1, s2 \in Steps1, c2 \in ChainsUpTo1({Pass, Fix(1)}), ord \in Perms4}

(* diamonds: P -> {M1, M2} -> C *)
DiamondT(u) ==
  {MkCfg(<<TimeC(sp, 0, FALSE, <<>>), TimeC(s1, 0, FALSE, <<Lk(1, <<>>)>>),
           TimeC(s2, 0, FALSE, <<Lk(1, c2)>>), TimeC(sc, 0, FALSE, <<Lk(2, <<>>), Lk(3, <<>>)>>)>>,
         ord, 6, "dag", "diamondt") :
     sp \in Steps1, s1 \in Steps1, s2 \in Steps1, sc \in Steps1,
     c2 \in ChainsUpTo1(AtomsS), ord \in Perms4}
(* P -> W1 -> {W2, W3} -> C, all W pull-based: acyclic, W1 is visited twice *)
DiamondP(u) ==
  {MkCfg(<<TimeC(sp, 0, FALSE, <<>>), PullC(<<Lk(1, c1)>>), PullC(<<Lk(2, <<>>)>>),
           PullC(<<Lk(2, c3)>>), TimeC(sc, 0, ip, <<Lk(3, <<>>), Lk(4, <<>>)>>)>>,
         ord, 6, "dag", "diamondp") :
     sp \in Steps1, sc \in StepSeqsS, ip \in BOOLEAN, c1 \in ChainsUpTo1({Pass, Buf("linear")}),
     c3 \in ChainsUpTo1({Pass}),
     ord \in {<<1, 2, 3, 4, 5>>, <<5, 4, 3, 2, 1>>}}
(* the same diamond read for two different times in one update: the branch through W2 is delayed *)
(* (pulled first; delay <= consumer steps, so the requests arriving at W1's input stay monotone) *)
DiamondPD(u) ==
  {MkCfg(<<TimeC(sp, 0, FALSE, <<>>), PullC(<<Lk(1, c1)>>), PullC(<<Lk(2, <<>>)>>),
           PullC(<<Lk(2, <<>>)>>), TimeC(sc, oc, FALSE, <<Lk(3, <<Fix(d)>>), Lk(4, c4)>>)>>,
         ord, 7, "dag", "diamondpd") :
     sp \in Steps1, sc \in {<<2>>, <<3>>, <<2, 3>>, <<5>>}, oc \in {0, 1}, c1 \in ChainsUpTo1({Pass}),
     d \in {1, 2}, c4 \in ChainsUpTo1({Pass}),
     ord \in {<<1, 2, 3, 4, 5>>, <<5, 4, 3, 2, 1>>, <<3, 5, 1, 4, 2>>}}
(* a pull component with two inputs from the same producer through         *)
(* different chains, and two pull components in a row                      *)
PullChain2(u) ==
  {MkCfg(<<TimeC(sp, 0, FALSE, <<>>), PullC(<<Lk(1, c1), Lk(1, c2)>>), PullC(<<Lk(2, c3)>>),
           TimeC(sc, oc, ip, <<Lk(3, <<>>)>>)>>, ord, 6, "dag", "pullchain2") :
     sp \in Steps1, sc \in StepSeqsS, oc \in {0, 1}, ip \in BOOLEAN,
     c1 \in ChainsUpTo1({Pass, Buf("linear")}), c2 \in ChainsUpTo1({Fix(1), Fix(2)}),
     c3 \in ChainsUpTo1({Pass, Fix(1)}), ord \in Perms4}

---------------------------------------------------------------------------
(* rings of time components.  Delay adapters are fixed delays distributed   *)
(* over the ring's links, one or two adapters per link, among pass          *)
(* adapters.  zone from the arithmetic of the statement.                    *)
RingZone(total, need, anyDelay) ==
  IF ~anyDelay THEN "unbroken" ELSE IF total >= need THEN "resolved" ELSE "partial"

(* v-th way of placing a total fixed delay d on one link *)
FixVar(d, v) ==
  IF d = 0 THEN (IF v % 2 = 1 THEN <<>> ELSE <<Pass>>)
  ELSE IF d = 1 THEN (IF v % 2 = 1 THEN <<Fix(1)>> ELSE <<Pass, Fix(1)>>)
  ELSE CASE v = 1 -> <<Fix(d)>>
         [] v = 2 -> <<Fix(1), Fix(d - 1)>>
         [] v = 3 -> <<Fix(d - 1), Pass, Fix(1)>>
         [] v = 4 -> <<Pass, Fix(d)>>
         [] v = 5 -> <<Fix(d \div 2), Fix(d - (d \div 2))>>
         [] OTHER -> <<Fix(d), Pass>>
OptFix(d) == IF d = 0 THEN <<>> ELSE <<Fix(d)>>

Ring2(u) ==
  {MkCfg(<<TimeC(sa, 0, FALSE, <<Lk(2, FixVar(da, va))>>), TimeC(sb, ob, FALSE, <<Lk(1, FixVar(db, vb))>>)>>,
         ord, 7, RingZone(da + db, MaxStep(sa) + MaxStep(sb), da + db > 0), "ring2") :
     sa \in StepSeqsS, sb \in StepSeqsS, ob \in {0, 1}, ord \in Perms2,
     da \in 0..6, db \in 0..3, va \in 1..6, vb \in 1..3}

Ring3(u) ==
  {MkCfg(<<TimeC(sa, 0, FALSE, <<Lk(3, FixVar(da, va))>>), TimeC(sb, 0, FALSE, <<Lk(1, OptFix(db))>>),
           TimeC(sc, 0, FALSE, <<Lk(2, FixVar(dc, 4))>>)>>,
         ord, 7, RingZone(da + db + dc, MaxStep(sa) + MaxStep(sb) + MaxStep(sc), da + db + dc > 0), "ring3") :
     sa \in Steps1, sb \in Steps1, sc \in {<<1>>, <<2>>, <<1, 2>>}, ord \in Perms3,
     da \in {0, 2, 4, 7}, db \in {0, 1, 3}, dc \in {0, 2}, va \in 1..3}

(* ring of four with a chord (1 -> 3) and a tail consumer (5 reads 2) *)
Ring4(u) ==
  {MkCfg(<<TimeC(sa, 0, FALSE, <<Lk(4, FixVar(da, va))>>), TimeC(sb, 0, FALSE, <<Lk(1, <<>>)>>),
           TimeC(sc, 0, FALSE, <<Lk(2, <<>>), Lk(1, ch)>>), TimeC(sd, 0, FALSE, <<Lk(3, OptFix(dd))>>),
           TimeC(<<2>>, 0, FALSE, <<Lk(2, <<>>)>>)>>,
         ord, 7, RingZone(da + dd, MaxStep(sa) + MaxStep(sb) + MaxStep(sc) + MaxStep(sd), da + dd > 0), "ring4") :
     sa \in {<<1>>, <<2>>}, sb \in {<<1>>, <<3>>}, sc \in {<<1>>, <<2>>}, sd \in {<<1>>, <<2>>},
     da \in {0, 3, 5, 8}, dd \in {0, 1, 3}, va \in 1..3, ch \in {<<>>, <<Fix(1)>>},
     ord \in {<<1, 2, 3, 4, 5>>, <<5, 4, 3, 2, 1>>, <<3, 1, 5, 2, 4>>}}

(* ring through a pull-based component: A -> W -> A *)
PullRing(u) ==
  {MkCfg(<<TimeC(sa, 0, FALSE, <<Lk(2, FixVar(da, va))>>), PullC(<<Lk(1, OptFix(dw))>>)>>,
         ord, 7, RingZone(da + dw, MaxStep(sa), da + dw > 0), "pullring") :
     sa \in StepSeqs, da \in 0..3, dw \in 0..3, va \in 1..3, ord \in Perms2}
(* ... with a second reader B of W: W is visited twice on one descent,     *)
(* for different times                                                     *)
PullRingTail(u) ==
  {MkCfg(<<TimeC(sa, 0, FALSE, <<Lk(2, <<>>)>>), PullC(<<Lk(1, <<Fix(MaxStep(sa))>>)>>),
           TimeC(sb, 0, FALSE, <<Lk(2, <<>>)>>)>>,
         ord, 7, "resolved", "pullringtail") :
     sa \in {<<1>>}, sb \in StepSeqs, ord \in Perms3}

(* the same with an UNBROKEN ring A <-> W: whether the descent starts at A or at the tail reader B (and so *)
(* closes at a time component or at the pull-based one), the cycle is reported                             *)
PullRingTail0(u) ==
  {MkCfg(<<TimeC(sa, 0, FALSE, <<Lk(2, ca)>>), PullC(<<Lk(1, cw)>>),
           TimeC(sb, ob, FALSE, <<Lk(2, <<>>)>>)>>,
         ord, 6, "unbroken", "pullringtail0") :
     sa \in Steps1, sb \in Steps1, ob \in {0, 1}, ca \in {<<>>, <<Pass>>}, cw \in {<<>>, <<Pass>>},
     ord \in {<<1, 2, 3>>, <<3, 2, 1>>, <<2, 3, 1>>, <<3, 1, 2>>}}

(* WeightedSum between four producers (value / weight pairs, the second    *)
(* value possibly in km) and one or two readers that pull at the same times *)
WSum(u) ==
  {LET n == IF two THEN 7 ELSE 6
       reader == TimeC(sc, 0, ip, <<Lk(5, <<>>)>>)
   IN [MkCfg(<<TimeCU(s1, 0, "m"), TimeCU(s2, 0, ""), TimeCU(s3, o3, u3), TimeCU(<<1>>, 0, ""),
              WSumC(<<Lk(1, <<>>), Lk(2, <<>>), Lk(3, c3), Lk(4, <<>>)>>), reader>>
             \o (IF two THEN <<reader>> ELSE <<>>),
             [i \in 1..n |-> IF rev THEN n + 1 - i ELSE i], 5, "dag", "wsum") EXCEPT !.tb = 10] :
     s1 \in Steps1, s2 \in {<<1>>, <<2>>}, s3 \in {<<1>>, <<3>>}, o3 \in {0, 1}, u3 \in {"m", "km"},
     c3 \in {<<>>, <<Fix(1)>>}, sc \in {<<1>>, <<2>>}, ip \in BOOLEAN, two \in BOOLEAN, rev \in BOOLEAN}

StaticC == [kind |-> "static", steps |-> <<1>>, off |-> 0, ip |-> FALSE, ins |-> <<>>, u |-> "m", ws |-> FALSE]
(* the merger's weights come from static outputs (no dependencies, declared between the value inputs): *)
(* the producers behind the later inputs are still dependencies                                        *)
WSumStatic(u) ==
  {[MkCfg(<<TimeCU(s1, 0, "m"), [StaticC EXCEPT !.u = ""], TimeCU(s3, o3, "m"), [StaticC EXCEPT !.u = ""],
            WSumC(<<Lk(1, <<>>), Lk(2, <<>>), Lk(3, c3), Lk(4, <<>>)>>), TimeC(sc, 0, ip, <<Lk(5, <<>>)>>)>>,
           ord, 6, "dag", "wsumstatic") EXCEPT !.tb = 10] :
     s1 \in Steps1, s3 \in Steps1, o3 \in {0, 1}, c3 \in {<<>>, <<Fix(1)>>}, sc \in {<<1>>, <<2>>, <<3>>}, ip \in BOOLEAN,
     ord \in {<<1, 2, 3, 4, 5, 6>>, <<6, 5, 4, 3, 2, 1>>, <<6, 1, 2, 5, 4, 3>>}}

(* two readers of the merger with different steps: the merger is asked for non-monotone times *)
(* (2 then 1, 4 then 3) while the coarse producers still hold what the earlier time needs     *)
WSumBack(u) ==
  {[MkCfg(<<TimeCU(s1, 0, "m"), TimeCU(<<3>>, 0, ""), TimeCU(s3, 0, u3), TimeCU(<<5>>, 0, ""),
            WSumC(<<Lk(1, <<>>), Lk(2, <<>>), Lk(3, <<>>), Lk(4, <<>>)>>),
            TimeC(<<2>>, 0, ip, <<Lk(5, <<>>)>>), TimeC(<<1>>, 0, ip, <<Lk(5, <<>>)>>)>>,
           ord, 4, "dag", "wsumback") EXCEPT !.tb = 10] :
     s1 \in {<<3>>, <<5>>}, s3 \in {<<3>>, <<5>>}, u3 \in {"m", "km"}, ip \in BOOLEAN,
     ord \in {<<1, 2, 3, 4, 5, 6, 7>>, <<7, 6, 5, 4, 3, 2, 1>>, <<6, 7, 5, 1, 2, 3, 4>>}}

(* one output of a pull-based component read by two inputs of one consumer *)
(* for different times (direct and delayed)                                *)
PullTwice(u) ==
  {c \in {MkCfg(<<TimeC(sp, 0, FALSE, <<>>), PullC(<<Lk(1, cw)>>), TimeC(sc, oc, FALSE, <<Lk(2, <<Fix(d)>>), Lk(2, c2)>>)>>,
                ord, 7, "dag", "pulltwice") :
            sp \in Steps1, sc \in StepSeqsS \cup {<<5>>}, oc \in {0, 1}, cw \in {<<>>, <<Pass>>},
            d \in {1, 3}, c2 \in {<<>>, <<Pass>>}, ord \in Perms3} :
     \* the delayed input is pulled first and the delay does not exceed the consumer's steps, so that
     \* the requests arriving at the pull-based component's input stay monotone
     \A k \in 1..Len(c.comps[3].steps) : c.comps[3].steps[k] >= c.comps[3].ins[1].chain[1].d}
(* a delay-resolved ring whose delayed member has a further, undelayed input (tail) *)
Ring2Tail(u) ==
  {MkCfg(<<TimeC(sa, 0, FALSE, IF first THEN <<Lk(2, FixVar(da, va)), Lk(3, <<>>)>> ELSE <<Lk(3, <<>>), Lk(2, FixVar(da, va))>>),
           TimeC(sb, 0, FALSE, <<Lk(1, <<>>)>>), TimeC(st, 0, FALSE, <<>>)>>,
         ord, 7, RingZone(da, MaxStep(sa) + MaxStep(sb), da > 0), "ring2tail") :
     sa \in Steps1, sb \in Steps1, st \in {<<1>>, <<2>>, <<5>>}, da \in {0, 2, 4, 6}, va \in 1..3, first \in BOOLEAN,
     ord \in Perms3}

(* a producer that finishes early (CSV reader at its last row) next to an independent pair; *)
(* its readers are a push-based consumer or a consumer that ends before it                   *)
Finisher(u) ==
  {MkCfg(<<TimeC(sa, oa, FALSE, <<>>) @@ [fin |-> k], TimeC(sg, 0, FALSE, <<>>), TimeC(sb, 0, FALSE, <<Lk(2, c2)>>)>>
         \o (IF rd = "sink" THEN <<SinkC(<<Lk(1, <<>>)>>)>> ELSE IF rd = "none" THEN <<>> ELSE <<TimeC(<<1>>, 0, FALSE, <<Lk(1, <<>>)>>) @@ [fin |-> 1]>>),
         IF rd = "none" THEN (IF rev THEN <<3, 2, 1>> ELSE <<1, 2, 3>>) ELSE (IF rev THEN <<4, 3, 2, 1>> ELSE <<1, 2, 3, 4>>),
         6, "dag", "finisher") :
     sa \in {<<1>>, <<2>>}, oa \in {0, 1}, k \in 1..3, sg \in {<<1>>, <<2>>}, sb \in {<<1>>, <<3>>},
     c2 \in {<<>>, <<Buf("linear")>>}, rd \in {"sink", "none", "short"}, rev \in BOOLEAN}

(* static links inside a composition: a static generator (no time, one publication) feeds    *)
(* static inputs (sins) of the producer and / or the consumer of a pair and of a ring member; *)
(* static inputs are no dependencies (C01) and serve their cached value (C20)                  *)
StaticIn(u) ==
  {MkCfg(<<StaticC, TimeC(sa, o[1], FALSE, IF ring THEN <<Lk(3, <<Fix(4)>>)>> ELSE <<>>) @@ [sins |-> IF onp THEN <<1>> ELSE <<>>],
           TimeC(sb, o[2], ip, <<Lk(2, ch)>>) @@ [sins |-> IF twice THEN <<1, 1>> ELSE <<1>>, sfirst |-> sf]>>,
         ord, 5, IF ring THEN RingZone(4, MaxStep(sa) + MaxStep(sb), TRUE) ELSE "dag", "staticin") :
     sf \in BOOLEAN,       \* the static inputs are declared before / after the ordinary ones (no difference in the design)
     sa \in Steps1, sb \in {<<1>>, <<2>>}, o \in {<<0, 0>>, <<0, 1>>, <<1, 0>>}, ip \in BOOLEAN, ch \in ChainsUpTo1(AtomsS),
     onp \in BOOLEAN, twice \in BOOLEAN, ring \in BOOLEAN, ord \in Perms3}

(* finam's TimeTrigger between a pull-based generator and a consumer (the library's remedy    *)
(* for "pull-only source followed by an element that needs pushes"): metadata flows through   *)
(* its transfer rules, data through its initial pull and its updates                          *)
Trigger(u) ==
  {MkCfg(<<PullC(<<>>), TimeC(st, 0, TRUE, <<Lk(1, <<>>)>>) @@ [relay |-> TRUE], TimeC(sc, oc, ip, <<Lk(2, ch)>>)>>
         \o (IF two THEN <<TimeC(<<2>>, 0, FALSE, <<Lk(2, <<Buf("next")>>)>>)>> ELSE <<>>),
         IF two THEN ord4 ELSE ord3, 6, "dag", "trigger") :
     st \in Steps1, sc \in StepSeqsS, oc \in {0, 1}, ip \in BOOLEAN, ch \in ChainsUpTo1(Atoms), two \in BOOLEAN,
     ord3 \in Perms3, ord4 \in {<<1, 2, 3, 4>>, <<4, 3, 2, 1>>}}

(* a consumer that needs more than a finishing producer will ever publish: the run must stop with an  *)
(* error before the consumer is advanced (C01), it can not complete                                   *)
FinDep(u) ==
  {MkCfg(<<TimeC(sa, 0, FALSE, <<>>) @@ [fin |-> k], TimeC(sb, ob, FALSE, <<Lk(1, ch)>>)>>, ord, 7, "findep", "findep") :
     sa \in {<<1>>, <<2>>}, k \in 1..2, sb \in {<<1>>, <<2>>, <<3>>}, ob \in {0, 1}, ch \in ChainsUpTo1({Pass, Fix(1), Buf("linear"), Buf("next")}),
     ord \in Perms2}

(* growth beyond the listed properties: push-based consumers (CallbackInput) next to a       *)
(* time-stepped reader of the same output, directly and behind adapters                      *)
SinkFan(u) ==
  {MkCfg(<<TimeC(sp, op, FALSE, <<>>), TimeC(sc, 0, ip, <<Lk(1, c1)>>), SinkC(<<Lk(1, c2)>>)>>,
         ord, 6, "dag", "sinkfan") :
     sp \in StepSeqsS, op \in {0, 1}, sc \in Steps1 \cup {<<5>>}, ip \in BOOLEAN,
     c1 \in ChainsUpTo1(AtomsS), c2 \in ChainsUpTo2({Pass, Fix(1), Fix(3), Buf("linear"), Buf("next")}), ord \in Perms3}

(* a producer that starts at or after the end time is never updated (it must still be     *)
(* finalized); the consumer reads an early and the late producer                            *)
LateIdle(u) ==
  {MkCfg(<<TimeC(s1, 0, FALSE, <<>>), TimeC(s2, o2, FALSE, <<>>),
           TimeC(sc, 0, ip, <<Lk(1, c1), Lk(2, c2)>>)>>, ord, e, "dag", "lateidle") :
     s1 \in Steps1, s2 \in {<<1>>, <<3>>}, sc \in StepSeqsS, o2 \in {5, 6, 8}, ip \in BOOLEAN, e \in {5, 6},
     c1 \in ChainsUpTo1({Pass, Buf("linear")}), c2 \in ChainsUpTo1({Pass, Buf("next")}), ord \in Perms3}
(* a ring B -> C -> B resolved by a delay on one input of C, while another input of C is fed  *)
(* by a third producer through a push-based adapter (both input orders)                      *)
RingFanIn(u) ==
  {MkCfg(<<TimeC(sa, 0, FALSE, <<>>), TimeC(sb, 0, FALSE, <<Lk(3, <<>>)>>),
           TimeC(sc, 0, FALSE, IF first THEN <<Lk(1, <<Buf(bk)>>), Lk(2, FixVar(d, va))>>
                                ELSE <<Lk(2, FixVar(d, va)), Lk(1, <<Buf(bk)>>)>>)>>,
         ord, 7, RingZone(d, MaxStep(sb) + MaxStep(sc), d > 0), "ringfanin") :
     sa \in Steps1, sb \in {<<1>>, <<2>>}, sc \in {<<1>>, <<2>>, <<1, 2>>}, d \in {0, 2, 3, 4}, va \in 1..2,
     bk \in {"next", "linear"}, first \in BOOLEAN, ord \in Perms3}

(* a ring closed through an integration adapter with a fixed delay below it: while the delay   *)
(* clamps to the start the adapter is asked for its oldest time again and again              *)
RingAvg(u) ==
  {MkCfg(<<TimeC(sa, 0, FALSE, <<Lk(2, <<Fix(da), Integ(ik)>>)>>), TimeC(sb, 0, FALSE, <<Lk(1, cb)>>)>>,
         ord, 9, RingZone(da, MaxStep(sa) + MaxStep(sb), TRUE), "ringavg") :
     sa \in {<<1>>, <<2>>, <<3>>}, sb \in {<<1>>, <<2>>, <<3>>}, da \in {2, 4, 5, 6}, ik \in {"avg", "sum"},
     cb \in {<<>>, <<Pass>>}, ord \in Perms2}

(* cycles broken by dependency-breaking / pull-counting adapters *)
RingBreak(u) ==
  {MkCfg(<<TimeC(sa, 0, FALSE, <<Lk(2, ca)>>), TimeC(sb, ob, FALSE, <<Lk(1, cb)>>)>>,
         ord, 7, "partial", "ringbreak") :
     sa \in StepSeqsS, sb \in StepSeqsS, ob \in {0, 1}, ord \in Perms2,
     ca \in {<<ToPush>>, <<ToPull(1, 0)>>, <<ToPull(2, 0)>>, <<ToPull(1, 2)>>, <<Pass, ToPush>>, <<ToPush, Fix(1)>>,
             \* a dependency breaker upstream of a push-based adapter breaks nothing; downstream it does
             <<Buf("linear"), ToPush>>, <<Buf("next"), ToPush>>, <<ToPush, Buf("linear")>>},
     cb \in {<<>>, <<Pass>>, <<Fix(1)>>}}

---------------------------------------------------------------------------
CfgSpace(f) ==
  CASE f = "pair"       -> Pair(StepSeqsS, AtomsS, {5})
    [] f = "pairL"      -> Pair(StepSeqs, Atoms, {4, 6})
    [] f = "pairXL"     -> Pair(Steps1, AtomsL, {6})
    [] f = "pair3"      -> Pair3(0)
    [] f = "chain3t"    -> Chain3T(0)
    [] f = "chain3p"    -> Chain3P(0)
    [] f = "chain3d"    -> Chain3D(0)
    [] f = "fanin2"     -> FanIn2(0)
    [] f = "fanin1"     -> FanIn1(0)
    [] f = "fanout"     -> FanOut(0)
    [] f = "fanoutsum"  -> FanOutSum(0)
    [] f = "pullfanout" -> PullFanOut(0)
    [] f = "diamondt"   -> DiamondT(0)
    [] f = "diamondp"   -> DiamondP(0)
    [] f = "pullchain2" -> PullChain2(0)
    [] f = "ring2"      -> Ring2(0)
    [] f = "ring3"      -> Ring3(0)
    [] f = "ring4"      -> Ring4(0)
    [] f = "pullring"   -> PullRing(0)
    [] f = "pullringtail" -> PullRingTail(0)
    [] f = "ringbreak"  -> RingBreak(0)
    [] f = "ringavg"    -> RingAvg(0)
    [] f = "wsum"       -> WSum(0)
    [] f = "wsumback"   -> WSumBack(0)
    [] f = "pulltwice"  -> PullTwice(0)
    [] f = "pullringtail0" -> PullRingTail0(0)
    [] f = "wsumstatic" -> WSumStatic(0)
    [] f = "diamondpd"  -> DiamondPD(0)
    [] f = "fanoutshared" -> FanOutShared(0)
    [] f = "fanout3shared" -> FanOut3Shared(0)
    [] f = "repeatinteg" -> RepeatInteg(0)
    [] f = "sinkfan"    -> SinkFan(0)
    [] f = "finisher"   -> Finisher(0)
    [] f = "findep"     -> FinDep(0)
    [] f = "trigger"    -> Trigger(0)
    [] f = "staticin"   -> StaticIn(0)
    [] f = "lateidle"   -> LateIdle(0)
    [] f = "ringfanin"  -> RingFanIn(0)
    [] f = "ring2tail"  -> Ring2Tail(0)

AllFamilies == {"pair", "pairL", "pairXL", "pair3", "chain3t", "chain3p", "fanin2", "fanin1",
                "fanout", "pullfanout", "diamondt", "diamondp", "pullchain2", "ring2", "ring3",
                "ring4", "pullring", "pullringtail", "pullringtail0", "ringbreak", "wsum", "pulltwice", "diamondpd", "wsumstatic", "ring2tail", "fanoutshared", "repeatinteg", "sinkfan", "lateidle", "ringfanin", "fanout3shared", "chain3d", "wsumback", "finisher", "trigger", "staticin", "ringavg", "fanoutsum", "findep"}

=============================================================================
