------------------------------ MODULE Topology ------------------------------
(* C19: which link topologies Composition.connect() must reject before any  *)
(* data is exchanged.  A topology is one source output, a chain of 0-3       *)
(* adapters below it (chain[1] next to the source), a leaf input, and        *)
(* optionally a second branch hanging off after chain position br (0 = at    *)
(* the output itself) consisting of 0-1 adapters and a second leaf.          *)
(*   src   "push" (Output) | "pull" (CallbackOutput) | "static"              *)
(*   adapter kinds  "pass" | "pushb" (must be notified by pushes) | "nobr"   *)
(*         (NoBranchAdapter) | "timead" (no-branch + push-based: the time    *)
(*         adapters) | "delay" (ITimeDelayAdapter, pass-through otherwise)   *)
(*         | "topull" (finam's DelayToPull: a delay that is no-branch)        *)
(*   leaf  "pull" (Input) | "push" (CallbackInput) | "static" (static Input) *)
(*         | "pushstatic" (static CallbackInput)                              *)
(*   srcIn / leafIn: the owning component is part of the composition         *)
(*   unconn: the first consumer has a further input that is left unconnected *)
EXTENDS FinamBase, TLC

AdKinds == {"pass", "pushb", "nobr", "timead", "delay", "topull"}
LeafKinds == {"pull", "push", "static", "pushstatic"}
SrcKinds == {"push", "pull", "static"}
ChainsUpTo(n) == UNION {[1..k -> AdKinds] : k \in 0..n}

NeedsPush(a) == a \in {"pushb", "timead"}
NoBranch(a) == a \in {"nobr", "timead", "topull"}

(* lin: the component that owns the branch's leaf is part of the composition *)
Br(at, ch, leaf) == [at |-> at, chain |-> ch, leaf |-> leaf, lin |-> TRUE]
BrOut(at, ch, leaf) == [at |-> at, chain |-> ch, leaf |-> leaf, lin |-> FALSE]
Topo(src, srcIn, chain, leaf, leafIn, brs, unconn) ==
  [src |-> src, srcIn |-> srcIn, chain |-> chain, leaf |-> leaf, leafIn |-> leafIn, brs |-> brs, unconn |-> unconn]

(* single chains with every placement of every adapter kind; one extra branch at every      *)
(* position; two extra branches (second one from a reduced alphabet, both creation orders) *)
Single(n) ==
  {Topo(s, si, ch, lf, li, <<>>, un) :
     s \in SrcKinds, si \in BOOLEAN, ch \in ChainsUpTo(n), lf \in LeafKinds, li \in BOOLEAN, un \in BOOLEAN}
  \ {Topo(s, FALSE, ch, lf, FALSE, <<>>, un) : s \in SrcKinds, ch \in ChainsUpTo(n), lf \in LeafKinds, un \in BOOLEAN}
Branched(n) ==
  {t \in {Topo(s, TRUE, ch, lf, TRUE, <<Br(b, c2, l2)>>, FALSE) :
            s \in SrcKinds, ch \in ChainsUpTo(n), lf \in LeafKinds, b \in 0..n,
            c2 \in ChainsUpTo(1), l2 \in LeafKinds} : t.brs[1].at <= Len(t.chain)}
(* a forgotten (linked but not listed) consumer on one of two branches, in both creation orders *)
BranchedOut(n) ==
  {t \in {Topo("push", TRUE, ch, "pull", TRUE, IF swap THEN <<BrOut(b2, c3, "pull"), Br(b1, c2, "pull")>> ELSE <<Br(b1, c2, "pull"), BrOut(b2, c3, "pull")>>, FALSE) :
            ch \in ChainsUpTo(n), b1 \in 0..n, c2 \in {<<>>, <<"pass">>}, b2 \in 0..n, c3 \in {<<>>, <<"pass">>}, swap \in BOOLEAN} :
     \A k \in 1..2 : t.brs[k].at <= Len(t.chain)} \cup
  {t \in {Topo("push", TRUE, ch, "pull", TRUE, <<BrOut(b, c2, "pull")>>, FALSE) : ch \in ChainsUpTo(n), b \in 0..n, c2 \in ChainsUpTo(1)} :
     t.brs[1].at <= Len(t.chain)}
Branched2(n) ==
  {t \in {Topo(s, TRUE, ch, "pull", TRUE, IF swap THEN <<Br(b2, c3, "pull"), Br(b1, c2, l2)>> ELSE <<Br(b1, c2, l2), Br(b2, c3, "pull")>>, FALSE) :
            s \in {"push", "pull"}, ch \in ChainsUpTo(n) \ {<<>>}, b1 \in 0..n, c2 \in {<<>>, <<"pass">>, <<"timead">>}, l2 \in {"pull", "push"},
            b2 \in 0..n, c3 \in {<<>>, <<"timead">>, <<"nobr">>}, swap \in BOOLEAN} :
     \A k \in 1..2 : t.brs[k].at <= Len(t.chain)}
Cases(n) == Single(n) \cup Branched(n) \cup Branched2(n - 1) \cup BranchedOut(n - 1)

Leaves == {"pull", "push", "static", "pushstatic"}
IsStaticLeaf(l) == l \in {"static", "pushstatic"}
IsPushLeaf(l) == l \in {"push", "pushstatic"}

(* the elements between the source and a leaf *)
Path(t, k) == SubSeq(t.chain, 1, t.brs[k].at) \o t.brs[k].chain
NBr(t) == Len(t.brs)

DeadLink(src, path, leaf) ==
  src = "pull" /\ ((\E j \in 1..Len(path) : NeedsPush(path[j])) \/ IsPushLeaf(leaf))
StaticMismatch(src, leaf) == IsStaticLeaf(leaf) /\ src # "static"

(* the five rules of the statement *)
RuleUnconnected(t) == t.unconn
RuleStatic(t) == StaticMismatch(t.src, t.leaf) \/ \E k \in 1..NBr(t) : StaticMismatch(t.src, t.brs[k].leaf)
RuleMissing(t) == ~t.srcIn \/ ~t.leafIn \/ \E k \in 1..NBr(t) : ~t.brs[k].lin
(* a node with two or more targets that is, or lies downstream of, a no-branch adapter *)
FanOutAt(t, k) == Cardinality({x \in 1..NBr(t) : t.brs[x].at = k}) >= 1
RuleBranch(t) == \E k \in 1..Len(t.chain) : FanOutAt(t, k) /\ \E j \in 1..k : NoBranch(t.chain[j])
RuleDead(t) == DeadLink(t.src, t.chain, t.leaf) \/ \E k \in 1..NBr(t) : DeadLink(t.src, Path(t, k), t.brs[k].leaf)
Valid(t) == ~(RuleUnconnected(t) \/ RuleStatic(t) \/ RuleMissing(t) \/ RuleBranch(t) \/ RuleDead(t))

(* number of links Composition.metadata must report: one per arrow *)
NLinks(t) == (Len(t.chain) + 1) + SeqSum([k \in 1..NBr(t) |-> Len(t.brs[k].chain) + 1])

(* sanity theorems *)
ASSUME \A t \in Cases(2) : (t.src = "push" /\ NBr(t) = 0 /\ t.srcIn /\ t.leafIn /\ ~t.unconn /\ ~IsStaticLeaf(t.leaf)) => Valid(t)
ASSUME \E t \in Cases(2) : RuleBranch(t) /\ ~RuleDead(t) /\ ~RuleStatic(t)
ASSUME \E t \in Cases(2) : RuleDead(t) /\ ~RuleBranch(t)
=============================================================================
