------------------------------ MODULE Topology ------------------------------
(* C19: which link topologies Composition.connect() must reject before any  *)
(* data is exchanged.  A topology is one source output, a chain of 0-3       *)
(* adapters below it (chain[1] next to the source), a leaf input, and        *)
(* optionally a second branch hanging off after chain position br (0 = at    *)
(* the output itself) consisting of 0-1 adapters and a second leaf.          *)
(*   src   "push" (Output) | "pull" (CallbackOutput) | "static"              *)
(*   adapter kinds  "pass" | "pushb" (must be notified by pushes) | "nobr"   *)
(*         (NoBranchAdapter) | "timead" (no-branch + push-based: the time    *)
(*         adapters) | "delay" (ITimeDelayAdapter, pass-through otherwise)   *)
(*   leaf  "pull" (Input) | "push" (CallbackInput) | "static" (static Input) *)
(*   srcIn / leafIn: the owning component is part of the composition         *)
(*   unconn: the first consumer has a further input that is left unconnected *)
EXTENDS FinamBase, TLC

AdKinds == {"pass", "pushb", "nobr", "timead", "delay"}
LeafKinds == {"pull", "push", "static"}
SrcKinds == {"push", "pull", "static"}
ChainsUpTo(n) == UNION {[1..k -> AdKinds] : k \in 0..n}

NeedsPush(a) == a \in {"pushb", "timead"}
NoBranch(a) == a \in {"nobr", "timead"}

Topo(src, srcIn, chain, leaf, leafIn, br, chain2, leaf2, unconn) ==
  [src |-> src, srcIn |-> srcIn, chain |-> chain, leaf |-> leaf, leafIn |-> leafIn,
   br |-> br, chain2 |-> chain2, leaf2 |-> leaf2, unconn |-> unconn]

(* single chains, every placement; branches with a reduced alphabet *)
Single(n) ==
  {Topo(s, si, ch, lf, li, -1, <<>>, "pull", un) :
     s \in SrcKinds, si \in BOOLEAN, ch \in ChainsUpTo(n), lf \in LeafKinds, li \in BOOLEAN, un \in BOOLEAN} \ {t \in {Topo(s, FALSE, ch, lf, FALSE, -1, <<>>, "pull", un) : s \in SrcKinds, ch \in ChainsUpTo(n), lf \in LeafKinds, un \in BOOLEAN} : TRUE}
Branched(n) ==
  {t \in {Topo(s, TRUE, ch, lf, TRUE, b, c2, l2, FALSE) :
            s \in SrcKinds, ch \in ChainsUpTo(n), lf \in LeafKinds, b \in 0..n,
            c2 \in ChainsUpTo(1), l2 \in LeafKinds} : t.br <= Len(t.chain)}
Cases(n) == Single(n) \cup Branched(n)

(* the elements between the source and a leaf *)
Path1(t) == t.chain
Path2(t) == SubSeq(t.chain, 1, t.br) \o t.chain2
HasBranch(t) == t.br >= 0

DeadLink(src, path, leaf) ==
  src = "pull" /\ ((\E j \in 1..Len(path) : NeedsPush(path[j])) \/ leaf = "push")
StaticMismatch(src, leaf) == leaf = "static" /\ src # "static"

(* the five rules of the statement *)
RuleUnconnected(t) == t.unconn
RuleStatic(t) == StaticMismatch(t.src, t.leaf) \/ (HasBranch(t) /\ StaticMismatch(t.src, t.leaf2))
RuleMissing(t) == ~t.srcIn \/ ~t.leafIn
RuleBranch(t) == HasBranch(t) /\ t.br >= 1 /\ \E j \in 1..t.br : NoBranch(t.chain[j])
RuleDead(t) == DeadLink(t.src, Path1(t), t.leaf) \/ (HasBranch(t) /\ DeadLink(t.src, Path2(t), t.leaf2))
Valid(t) == ~(RuleUnconnected(t) \/ RuleStatic(t) \/ RuleMissing(t) \/ RuleBranch(t) \/ RuleDead(t))

(* number of links Composition.metadata must report: one per arrow *)
NLinks(t) == (Len(t.chain) + 1) + (IF HasBranch(t) THEN Len(t.chain2) + 1 ELSE 0)

(* sanity theorems *)
ASSUME \A t \in Cases(2) : (t.src = "push" /\ ~HasBranch(t) /\ t.srcIn /\ t.leafIn /\ ~t.unconn /\ t.leaf # "static") => Valid(t)
ASSUME \E t \in Cases(2) : RuleBranch(t) /\ ~RuleDead(t) /\ ~RuleStatic(t)
ASSUME \E t \in Cases(2) : RuleDead(t) /\ ~RuleBranch(t)
=============================================================================
