------------------------------- MODULE TimeBuf -------------------------------
(* Nondeterministic model of one time-buffering adapter: notifications      *)
(* (publications of the source with increasing times and arbitrary values)  *)
(* interleaved with pulls at non-decreasing times.                          *)
EXTENDS TimeBufOps, TLC, Json

CONSTANTS MaxLen, MaxPub, Gaps, Vals, CfgSet
VARIABLES cfg, st, lastq, hist
vars == <<cfg, st, lastq, hist>>
view == <<cfg, st, lastq>>

Lin == <<-1, 1>>
C(kind, sig, pt, limit, size, pay) == [kind |-> kind, sig |-> sig, pt |-> pt, limit |-> limit, size |-> size, pay |-> pay]
Sigs == {<<0, 1>>, <<1, 4>>, <<1, 2>>, <<3, 4>>, <<1, 1>>}
Cfgs ==
  CASE CfgSet = "interp" -> {C(k, Lin, FALSE, None, 8, "scalar") : k \in {"next", "prev", "linear"}} \cup
                            {C("step", sg, FALSE, None, 8, "scalar") : sg \in Sigs} \cup
                            \* payload in an offset unit (degC): values are positions on a scale, not amounts
                            {C("linear", Lin, FALSE, None, 8, "temp"), C("step", <<1, 2>>, FALSE, None, 8, "temp"),
                             C("next", Lin, FALSE, None, 8, "temp")}
    [] CfgSet = "interpgrid" -> {C(k, Lin, FALSE, None, 16, "grid") : k \in {"next", "prev", "linear"}} \cup
                            {C("step", sg, FALSE, None, 16, "grid") : sg \in {<<0, 1>>, <<1, 2>>}}
    [] CfgSet = "integ"  -> {C("avg", sg, TRUE, None, 8, "scalar") : sg \in {Lin, <<0, 1>>, <<1, 2>>, <<1, 1>>}} \cup
                            {C("sum", sg, pt, None, 8, "scalar") : sg \in {Lin, <<0, 1>>, <<1, 2>>, <<3, 4>>}, pt \in BOOLEAN} \cup
                            {C("sum", Lin, TRUE, None, 8, "flux"), C("sum", <<1, 2>>, TRUE, None, 8, "flux"),
                             C("sum", Lin, FALSE, None, 8, "flux"), C("avg", Lin, TRUE, None, 8, "flux")}
    [] CfgSet = "integgrid" -> {C("avg", Lin, TRUE, None, 16, "grid"), C("sum", <<0, 1>>, TRUE, None, 16, "grid")}
    \* two cells; the second one is missing (masked) in every publication whose index is 2 modulo 3
    [] CfgSet = "integhole" -> {C("avg", Lin, TRUE, None, 16, "hole"), C("sum", <<0, 1>>, TRUE, None, 16, "hole"),
                                C("sum", Lin, FALSE, None, 16, "hole"), C("avg", <<1, 2>>, TRUE, None, 16, "hole")}
    [] CfgSet = "interphole" -> {C(k, Lin, FALSE, None, 16, "hole") : k \in {"next", "prev", "linear"}} \cup
                                {C("step", <<1, 2>>, FALSE, None, 16, "hole")}
    [] CfgSet = "stack"  -> {C("stack", Lin, FALSE, l, 16, "grid") : l \in {None, 16}}     \* (StackTime refuses NoGrid data with several time entries)
    [] CfgSet = "spill"  -> {C(k, sg, TRUE, l, 8, "scalar") :
                               k \in {"next", "prev", "linear", "step", "avg", "sum"}, sg \in {<<1, 2>>}, l \in {0, 8, 20}}
    [] CfgSet = "spillmasked" -> {C(k, <<1, 2>>, TRUE, l, 16, py) :
                               k \in {"next", "linear", "avg"}, l \in {None, 0, 16, 40}, py \in {"masked", "maskedempty"}}

Init == cfg \in Cfgs /\ st = St0 /\ lastq = None /\ hist = <<>>

NPub == Len(st.full)
NewestT == IF st.full = <<>> THEN -1 ELSE st.full[Len(st.full)].t

DoNotify ==
  /\ NPub < MaxPub /\ ~st.fin
  /\ \E g \in Gaps, v \in Vals :
       LET t == IF st.full = <<>> THEN 0 ELSE NewestT + g
       IN /\ st' = Notify(cfg, st, t, v)
          /\ hist' = Append(hist, [op |-> "push", t |-> t, v |-> v])
  /\ UNCHANGED lastq

ReqTimes ==
  LET lo == IF lastq # None THEN (IF IsInteg(cfg) THEN lastq + 1 ELSE lastq)
            ELSE IF st.lab = <<>> THEN 0 ELSE st.lab[1].t - 1      \* (also one tick before the first publication)
  IN lo..(NewestT + 1)

DoGet ==
  /\ ~st.fin
  /\ \E t \in ReqTimes :
       LET r == Get(cfg, st, t)
       IN /\ st' = r.st
          /\ lastq' = IF r.err = "" THEN t ELSE lastq
          /\ hist' = Append(hist, [op |-> "get", t |-> t, v |-> 0])

DoFinalize ==
  /\ ~st.fin /\ Len(hist) = MaxLen - 1 /\ st' = Finalize(st)
  /\ hist' = Append(hist, [op |-> "fin", t |-> 0, v |-> 0])
  /\ UNCHANGED lastq

Next == /\ Len(hist) < MaxLen
        /\ (DoNotify \/ DoGet \/ DoFinalize)
        /\ UNCHANGED cfg
Spec == Init /\ [][Next]_vars

InvEvict == ~st.fin => EvictTransparent(cfg, st)
InvAvg == ~st.fin => \A t \in ReqTimes : AvgInRange(cfg, st, t)
(* exact value at publication times; no extrapolation *)
InvExact ==
  (~st.fin /\ ~IsInteg(cfg)) =>
     \A k \in 1..Len(st.lab) : Get(cfg, st, st.lab[k].t).val = RInt(st.lab[k].v)
InvRange ==
  ~st.fin => \A t \in ReqTimes : (st.lab # <<>> /\ t > NewestT) => Get(cfg, st, t).err = "FinamTimeError"
(* C12: the total delivered over a period does not depend on the partition: *)
(* the integral over [p0, t] plus the integral over [t, u] is the integral  *)
(* over [p0, u]                                                            *)
InvAdditive ==
  (~st.fin /\ cfg.kind = "sum" /\ st.npull > 0) =>
     \A t \in ReqTimes : \A u \in ReqTimes :
        (st.prev < t /\ t < u /\ u <= NewestT) =>
           RAdd(Def(cfg, st.full, st.prev, t), Def(cfg, st.full, t, u)) = Def(cfg, st.full, st.prev, u)
InvAccounting ==
  /\ st.files = Cardinality({k \in 1..Len(st.lab) : st.lab[k].sp})
  /\ (cfg.limit # None) => st.ram <= Max2(cfg.limit, 0)
  /\ st.fin => st.files = 0

Emit == (Len(hist) = MaxLen) => PrintT(<<"SCRIPT", ToJson([cfg |-> cfg, ops |-> hist])>>)
=============================================================================
