----------------------------- MODULE Delay_Trace -----------------------------
(* Validation of push / pull histories executed on real delay adapter       *)
(* chains (harness/fv/delay_run.py): ev[i] = [op, t, res, at, tok]          *)
(* at = the time that arrived at the source output (-1 if nothing did)      *)
EXTENDS SchedOps, Json, IOUtils, TLC

Traces == ndJsonDeserialize(IOEnv.TRACE_FILE)
VARIABLES tid, i, s, verdict
vars == <<tid, i, s, verdict>>
Tr == Traces[tid]
L == <<2, 1>>
Fail(c, k) == c \o "@" \o ToString(k)

EvVerdict(cfg, st, e, k) ==
  IF e.op = "push" THEN (IF e.res = "ok" THEN "ok" ELSE Fail("push-raised", k))
  ELSE LET r == PullFrom(cfg, st, L, 1, e.t)
           want == r.log[1].t
       IN IF e.at # want THEN Fail("delay-shift", k)
          ELSE IF r.ok /\ e.res # "ok" THEN Fail("served", k)
          ELSE IF ~r.ok /\ e.res # "err:FinamTimeError" THEN Fail("range", k)
          ELSE IF r.ok /\ ~(e.tok \in {Tok(cfg, 1, g) : g \in r.log[1].near}) THEN Fail("delay-value", k)
          ELSE "ok"

Effect(cfg, st, e) ==
  IF e.op = "push" THEN Publish(cfg, st, 1, e.t).s
  ELSE LET r == PullFrom(cfg, st, L, 1, e.t) IN IF r.ok THEN r.s ELSE st

Init == tid \in 1..Len(Traces) /\ i = 1 /\ s = InitState(Traces[tid].cfg) /\ verdict = "ok"
Next ==
  /\ i <= Len(Tr.ev)
  /\ i' = i + 1 /\ UNCHANGED tid
  /\ IF verdict # "ok" THEN UNCHANGED <<s, verdict>>
     ELSE /\ verdict' = EvVerdict(Tr.cfg, s, Tr.ev[i], i)
          /\ s' = Effect(Tr.cfg, s, Tr.ev[i])
Spec == Init /\ [][Next]_vars

Done == i = Len(Tr.ev) + 1
Collect == Done => IF verdict = "ok" THEN TLCSet(3, TLCGet(3) + 1)
                   ELSE TLCSet(2, TLCGet(2) \cup {<<tid, verdict>>})
ASSUME TLCSet(2, {}) /\ TLCSet(3, 0)
Report == /\ PrintT(<<"ACCEPTED", TLCGet(3)>>)
          /\ PrintT(<<"TOTAL", Len(Traces)>>)
          /\ \A v \in TLCGet(2) : PrintT(<<"VERDICT", v[1], v[2]>>)
=============================================================================
