---- MODULE GridEmit ----
(* evaluates the layout theorems (ASSUME) and writes the case spaces selected by WHAT:   *)
(*  layout  every layout (C14)                                                          *)
(*  memo    sequences of property reads / location changes / copies (C14)               *)
(*  memo2   the same on two objects: a grid and its copy, "swap" switches between them (C14) *)
(*  canon   layouts with the field "token of my location" (C15)                         *)
(*  compat  layout pairs of equal and different geometry (C15)                          *)
(*  link    layout pairs of the same geometry: producer field and masks (C15)           *)
EXTENDS Grid, Json, IOUtils
ASSUME \A L \in AllLayouts \cup Esri : ThLayout(L)
PairLayouts == Layouts({"uniform"}, PairDims) \cup Esri
CompatLayouts == Layouts({"uniform", "rect", "rectb"}, {<<2, 3>>, <<3, 2>>, <<3>>, <<3, 3>>})
ASSUME \A L1 \in Layouts({"uniform"}, {<<2, 3>>, <<3>>}), L2 \in CompatLayouts : ThPair(L1, L2)

MemoOps == {"shape", "size", "npoints", "cells", "points", "copy"}
MemoSeqs == UNION {[1..n -> MemoOps] : n \in 2..4}
MemoLayouts == {L \in Layouts({"uniform", "rect"}, {<<3, 2>>, <<2, 3, 2>>}) : L.order = "F" /\ (\A a \in 1..Len(L.dims) : L.inc[a])}
Memo2Ops == {"shape", "size", "cells", "points", "swap"}
Memo2Seqs == {<<"copy">> \o s : s \in [1..4 -> Memo2Ops]}
Memo2Layouts == {L \in MemoLayouts : L.dims = <<3, 2>>}
StackLayouts == Layouts({"uniform"}, {<<2, 3>>, <<3, 3>>}) \cup {L \in Esri : L.dims = <<3, 3>>}
GoodLink(a, b) == a.dims = b.dims /\ (a.kind = "esri" => b.loc = "cells") /\ (b.kind = "esri" => a.loc = "cells")
                  /\ (a.kind = "esri" \/ b.kind = "esri" => a.loc = b.loc)

Out ==
  CASE IOEnv.WHAT = "layout" -> SetToSeq({[what |-> "layout", L |-> L] : L \in AllLayouts \cup Esri})
    [] IOEnv.WHAT = "memo"   -> SetToSeq({[what |-> "memo", L |-> L, ops |-> s] : L \in MemoLayouts, s \in MemoSeqs})
    [] IOEnv.WHAT = "memo2"  -> SetToSeq({[what |-> "memo", L |-> L, ops |-> s] : L \in Memo2Layouts, s \in Memo2Seqs})
    [] IOEnv.WHAT = "canon"  -> SetToSeq({[what |-> "canon", L |-> L, field |-> FieldC(L)] : L \in PairLayouts \cup Layouts({"rect"}, {<<3, 2>>, <<2, 2, 3>>})})
    [] IOEnv.WHAT = "compat" -> SetToSeq({[what |-> "compat", src |-> a, dst |-> b] : a \in Layouts({"uniform"}, {<<2, 3>>, <<3>>}), b \in CompatLayouts}
                                          \cup {[what |-> "compat", src |-> a, dst |-> b] :
                                                 a \in {L \in Layouts({"rect"}, {<<3, 3>>, <<3>>}) : L.order = "F" /\ ~L.rev},
                                                 b \in {L \in Layouts({"rect", "rectb"}, {<<3, 3>>, <<3>>}) : L.order = "F"}})
    \* st: a static link (published once), the second read is observed
    \* stk: through a StackTime adapter, two publications (the field and the field + 500) before the pull
    [] IOEnv.WHAT = "link"   -> SetToSeq({[what |-> "link", src |-> pr[1], dst |-> pr[2], masked |-> ms[1], st |-> ms[2], stk |-> ms[3], field |-> FieldC(pr[1])] :
                                           pr \in {q \in PairLayouts \X PairLayouts : GoodLink(q[1], q[2])},
                                           ms \in {<<FALSE, FALSE, FALSE>>, <<TRUE, FALSE, FALSE>>, <<FALSE, TRUE, FALSE>>}} \cup
                                         {[what |-> "link", src |-> pr[1], dst |-> pr[2], masked |-> FALSE, st |-> FALSE, stk |-> TRUE, field |-> FieldC(pr[1])] :
                                           pr \in {q \in StackLayouts \X StackLayouts : GoodLink(q[1], q[2])}})
ASSUME ndJsonSerialize(IOEnv.OUT_FILE, Out)
VARIABLE x
Init == x = 0
Next == UNCHANGED x
====
