-------------------------------- MODULE Delay --------------------------------
(* One link source -> chain of 1-3 delay / pass-through adapters -> consumer *)
(* with arbitrary (non-decreasing) consumer request times, i.e. the adapter  *)
(* semantics of C13 without the scheduler.  The operational model is the     *)
(* one of SchedOps (Shift / AfterPull with DelayToPull's bounded memory);    *)
(* the invariants restate it from the property's wording over ghost          *)
(* histories of everything that ever arrived at each adapter.                *)
EXTENDS SchedOps, SchedFamilies, TLC, Json

CONSTANTS MaxLen, MaxPub, Gaps, ChainSet
VARIABLES cfg, s, arr, hist
(* arr[j]: all request times that arrived at chain position j so far       *)
(* (position Len+1 = the source output)                                    *)
vars == <<cfg, s, arr, hist>>
view == <<cfg, s, arr>>

L == <<2, 1>>
DAtoms == {Pass, Fix(1), Fix(2), Fix(5), ToPull(1, 0), ToPull(2, 2), ToPull(3, 0), ToPush}
DChains ==
  CASE ChainSet = "one"   -> {<<a>> : a \in DAtoms}
    [] ChainSet = "two"   -> {<<a, b>> : a \in DAtoms, b \in DAtoms}
    [] ChainSet = "three" -> {<<a, b, c>> : a \in DAtoms \ {ToPull(3, 0)}, b \in DAtoms \ {Fix(5)}, c \in DAtoms \ {ToPull(2, 2)}}
    [] ChainSet = "upto2" -> {<<a>> : a \in DAtoms} \cup {<<a, b>> : a \in DAtoms, b \in DAtoms}
Cfgs == {MkCfg(<<TimeC(<<1>>, off, FALSE, <<>>), TimeC(<<1>>, 0, FALSE, <<Lk(1, ch)>>)>>, <<1, 2>>, 0, "dag", "delay") :
           off \in {0, 2}, ch \in DChains}

Init == /\ cfg \in Cfgs
        /\ s = InitState(cfg)
        /\ arr = [j \in 1..(Len(Chain(cfg, L)) + 1) |-> <<>>]
        /\ hist = <<>>

T0 == SrcT0(cfg, L)
NPub == Len(s.full[1])
LastReq == IF arr[1] = <<>> THEN 0 ELSE arr[1][Len(arr[1])]

DoPush ==
  /\ NPub < MaxPub
  /\ \E g \in Gaps :
       LET t == Newest(s, 1) + g
       IN /\ s' = Publish(cfg, s, 1, t).s
          /\ hist' = Append(hist, [op |-> "push", t |-> t])
  /\ UNCHANGED arr

(* request times may also go back by up to two ticks (another reader of the same adapter chain asks for an *)
(* earlier time; the source refuses what it has already discarded)                                        *)
DoPull ==
  \E T \in Max2(0, LastReq - 2)..(Newest(s, 1) + 2) :
     LET r == PullFrom(cfg, s, L, 1, T)
         ch == Chain(cfg, L)
     IN /\ s' = IF r.ok THEN r.s ELSE s
        /\ arr' = IF r.ok THEN [j \in DOMAIN arr |-> Append(arr[j], ReqAt(ch, s.ad[L], j, T, T0))] ELSE arr
        /\ hist' = Append(hist, [op |-> "get", t |-> T])

Next == Len(hist) < MaxLen /\ (DoPush \/ DoPull) /\ UNCHANGED cfg
Spec == Init /\ [][Next]_vars

---------------------------------------------------------------------------
(* The property's wording, adapter by adapter, over the ghost histories:   *)
(* the k-th request that arrived at position j leaves it as ...            *)
Nth(sq, k) == IF k >= 1 THEN sq[k] ELSE T0
(* newest publication at the moment of the k-th pull is not kept as a      *)
(* ghost; DelayToPush is checked against the current newest on the last    *)
(* pull only (LastOnly)                                                    *)
DefOut(a, sq, k) ==
  CASE a.k = "fixed"  -> Max2(sq[k] - a.d, T0)
    [] a.k = "topull" -> Max2(Nth(sq, k - a.n) - a.add, T0)
    [] OTHER          -> sq[k]

AdaptersAsStated ==
  \A j \in 1..Len(Chain(cfg, L)) :
     LET a == Chain(cfg, L)[j] IN
     a.k # "topush" =>
        \A k \in 1..Len(arr[j]) : arr[j + 1][k] = DefOut(a, arr[j], k)

(* a DelayToPush never lets a request pass beyond the newest publication   *)
(* it was notified of, and changes nothing below it                        *)
ToPushAsStated ==
  \A j \in 1..Len(Chain(cfg, L)) :
     Chain(cfg, L)[j].k = "topush" =>
        \A k \in 1..Len(arr[j]) :
           /\ arr[j + 1][k] <= arr[j][k]
           /\ arr[j + 1][k] <= Newest(s, 1)
           /\ arr[j + 1][k] < arr[j][k] => \E p \in 1..Len(s.full[1]) : s.full[1][p] = arr[j + 1][k]

(* delays of chained fixed-delay adapters add up *)
FixedDelaysAddUp ==
  LET ch == Chain(cfg, L) IN
  ((\A j \in 1..Len(ch) : ch[j].k \in {"fixed", "pass"}) /\ (\E j \in 1..Len(ch) : ch[j].k = "fixed")) =>
     \A k \in 1..Len(arr[1]) :
        arr[Len(ch) + 1][k] = Max2(arr[1][k] - SeqSum([j \in 1..Len(ch) |-> ch[j].d]), T0)

(* what arrives at the source is never in the future of the request and    *)
(* never before the start time                                             *)
ShiftBounds ==
  \A k \in 1..Len(arr[1]) :
     \* (a DelayToPull answers for an earlier REQUEST, which may be later in time when requests go back:
     \*  the bound is the latest time requested so far)
     LET x == arr[Len(Chain(cfg, L)) + 1][k]
         hi == SetMax({arr[1][q] : q \in 1..k})
     IN x >= Min2(T0, arr[1][k]) /\ x <= Max2(hi, T0)

Emit == (Len(hist) = MaxLen) => PrintT(<<"SCRIPT", ToJson([cfg |-> cfg, ops |-> hist])>>)
=============================================================================
