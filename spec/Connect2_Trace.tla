---------------------------- MODULE Connect2_Trace ----------------------------
(* Observation-driven validation of recorded connect phases of multi-port     *)
(* components (harness/fv/connect2_run.py).  ev[i] = [c, st, fl, pubs, pvals,   *)
(* toks] after every Component.connect call: fl[p] = <<inX, inD, outP, outX,    *)
(* outD>> of port p, pubs[p] / pvals[p] publication times / values of Out<p>,  *)
(* toks[p] the value pulled initially on In<p> (-1 = none);                    *)
(* end = [out, unconnected].                                                   *)
EXTENDS Connect2, Json, IOUtils, TLC
Traces == ndJsonDeserialize(IOEnv.TRACE_FILE)
VARIABLES tid, i, ob, verdict
vars == <<tid, i, ob, verdict>>
Tr == Traces[tid]
Fail(c, k) == c \o "@" \o ToString(k)

O0(cfg) == [st |-> [c \in Comps(cfg) |-> "init"],
            fl |-> [c \in Comps(cfg) |-> [p \in Ports(cfg, c) |->
                      <<FALSE, FALSE, P(cfg, c, p).hasout /\ P(cfg, c, p).outown, FALSE, FALSE>>]],
            pv |-> [c \in Comps(cfg) |-> [p \in Ports(cfg, c) |-> -1]]]
ObsItems(cfg, o) == {it \in Items(cfg) :
   o.fl[it[1]][it[2]][CASE it[3] = "inX" -> 1 [] it[3] = "inD" -> 2 [] it[3] = "outP" -> 3 [] it[3] = "outX" -> 4 [] it[3] = "outD" -> 5]}
CompleteObs(cfg, fl, c) ==
  \A p \in Ports(cfg, c) :
    LET k == P(cfg, c, p) IN
    /\ k.hasin => fl[p][1]
    /\ (k.hasin /\ k.pull) => fl[p][2]
    /\ k.hasout => (fl[p][3] /\ fl[p][4] /\ fl[p][5])

EvVerdict(cfg, o, e, k) ==
  LET c == e.c
      old == o.fl[c]
      new == [p \in Ports(cfg, c) |-> e.fl[p]]
      o2 == [o EXCEPT !.fl[c] = new, !.st[c] = e.st]
      F == ObsItems(cfg, o2)
  IN IF o.st[c] = "connected" THEN Fail("call-of-connected", k)
     ELSE IF ~(e.st \in {"connecting", "idle", "connected"}) THEN Fail("connect-status", k)
     ELSE IF \E p \in Ports(cfg, c), j \in 1..5 : old[p][j] /\ ~new[p][j] THEN Fail("exchange-undone", k)
     \* never reported connected while one of its declared exchanges (on ANY port) is outstanding
     ELSE IF e.st = "connected" /\ ~CompleteObs(cfg, new, c) THEN Fail("connected-only-when-complete", k)
     \* progress exactly when something new was exchanged (on ANY port); not asserted for the first call
     ELSE IF o.st[c] # "init" /\ e.st = "idle" /\ new # old THEN Fail("progress-iff-new", k)
     ELSE IF o.st[c] # "init" /\ e.st = "connecting" /\ new = old THEN Fail("progress-iff-new", k)
     ELSE IF \E p \in Ports(cfg, c), j \in 1..5 : new[p][j] /\ ~old[p][j] /\ ~Derivable(cfg, F, <<c, p, FlagNames[j]>>)
          THEN Fail("exchange-before-dependency", k)
     ELSE IF \E p \in Ports(cfg, c) : P(cfg, c, p).hasout /\ Targets(cfg, c, p) # {} /\
                e.pubs[p] # (IF new[p][5] THEN PortPubs(cfg, c, p) ELSE <<>>) THEN Fail("double-initial-push", k)
     ELSE IF \E p \in Ports(cfg, c) : new[p][5] /\ \E x \in 1..Len(e.pvals[p]) : e.pvals[p][x] # InitTok(cfg, c, p) THEN Fail("initial-data-value", k)
     ELSE IF \E p \in Ports(cfg, c) : new[p][2] /\ ~old[p][2] /\ e.toks[p] # InitTok(cfg, P(cfg, c, p).src, P(cfg, c, p).sport)
          THEN Fail("initial-pull-value", k)
     ELSE "ok"

EndVerdict(cfg, o, en, k) ==
  LET open == {c \in Comps(cfg) : o.st[c] # "connected"}
      stuck == StuckSet(cfg)
  IN
  IF en.out = "ok" THEN
     (IF ~(open = {} /\ stuck = {}) THEN Fail("connect-outcome", k)
      ELSE IF \E c \in Comps(cfg) : ~CompleteObs(cfg, o.fl[c], c) THEN Fail("connected-only-when-complete", k)
      ELSE "ok")
  ELSE IF en.out = "stall" THEN
     (IF stuck = {} THEN Fail("false-stall", k)
      ELSE IF {en.unconnected[x] : x \in 1..Len(en.unconnected)} # stuck THEN Fail("stall-set", k)
      ELSE IF open # stuck THEN Fail("stall-set", k)
      ELSE "ok")
  ELSE Fail("connect-error", k)

Init == tid \in 1..Len(Traces) /\ i = 1 /\ ob = O0(Traces[tid].cfg) /\ verdict = "ok"
Next ==
  /\ i <= Len(Tr.ev) + 1
  /\ i' = i + 1 /\ UNCHANGED tid
  /\ IF verdict # "ok" THEN UNCHANGED <<ob, verdict>>
     ELSE IF i <= Len(Tr.ev) THEN
          /\ verdict' = EvVerdict(Tr.cfg, ob, Tr.ev[i], i)
          /\ ob' = LET e == Tr.ev[i] IN
                    [ob EXCEPT !.fl[e.c] = [p \in Ports(Tr.cfg, e.c) |-> e.fl[p]], !.st[e.c] = e.st,
                               !.pv[e.c] = [p \in Ports(Tr.cfg, e.c) |-> IF e.pvals[p] # <<>> THEN e.pvals[p][1] ELSE @[p]]]
     ELSE /\ verdict' = EndVerdict(Tr.cfg, ob, Tr.end, i) /\ ob' = ob
Spec == Init /\ [][Next]_vars
Done == i = Len(Tr.ev) + 2
Collect == Done => IF verdict = "ok" THEN TLCSet(3, TLCGet(3) + 1)
                   ELSE TLCSet(2, TLCGet(2) \cup {<<tid, verdict>>})
ASSUME TLCSet(2, {}) /\ TLCSet(3, 0)
Report == /\ PrintT(<<"ACCEPTED", TLCGet(3)>>) /\ PrintT(<<"TOTAL", Len(Traces)>>)
          /\ \A v \in TLCGet(2) : PrintT(<<"VERDICT", v[1], v[2]>>)
=============================================================================
