---- MODULE Connect2Emit ----
EXTENDS Connect2, Json, IOUtils, TLC
ASSUME \A cfg \in CSpace(IOEnv.FAMILY) : ThLfp(cfg)
ASSUME ndJsonSerialize(IOEnv.OUT_FILE, SetToSeq(CSpace(IOEnv.FAMILY)))
VARIABLE x
Init == x = 0
Next == UNCHANGED x
====
