------------------------------- MODULE MaskOps -------------------------------
(* C18: compression of masked data (to_compressed / from_compressed) and    *)
(* preparing data under a fixed mask.  An array of shape sh holds at C-flat *)
(* position p (1-based) the value 10 + p; mask[p] says whether it is masked *)
(* form: "masked" (a masked array is passed), "maskarg" (plain array plus   *)
(* mask argument), "nomask" (masked array with numpy's nomask).             *)
EXTENDS FinamBase, TLC

Prod(sh) == IF Len(sh) = 1 THEN sh[1] ELSE IF Len(sh) = 2 THEN sh[1] * sh[2] ELSE sh[1] * sh[2] * sh[3]
(* C-flat position (1-based) of the element that sits at position q (1-based) of the flattening in order ord *)
IdxC(sh, i) == IF Len(sh) = 1 THEN i[1]
               ELSE IF Len(sh) = 2 THEN (i[1] - 1) * sh[2] + i[2]
               ELSE ((i[1] - 1) * sh[2] + (i[2] - 1)) * sh[3] + i[3]
UnflatF(sh, p) ==
  CASE Len(sh) = 1 -> <<p + 1>>
    [] Len(sh) = 2 -> <<(p % sh[1]) + 1, (p \div sh[1]) + 1>>
    [] Len(sh) = 3 -> <<(p % sh[1]) + 1, ((p \div sh[1]) % sh[2]) + 1, (p \div (sh[1] * sh[2])) + 1>>
PosC(sh, ord, q) == IF ord = "C" THEN q ELSE IdxC(sh, UnflatF(sh, q - 1))

(* values of the unmasked elements in the requested memory order *)
Compress(sh, ord, mask) ==
  LET keep == SelectSeq([q \in 1..Prod(sh) |-> PosC(sh, ord, q)], LAMBDA p : ~mask[p])
  IN [k \in 1..Len(keep) |-> 10 + keep[k]]
(* re-expansion: C-flat array of values, 0 at masked positions *)
Expand(sh, ord, mask, vals) ==
  LET keep == SelectSeq([q \in 1..Prod(sh) |-> PosC(sh, ord, q)], LAMBDA p : ~mask[p])
  IN [p \in 1..Prod(sh) |-> IF mask[p] THEN 0 ELSE vals[CHOOSE k \in 1..Len(keep) : keep[k] = p]]

Shapes == {<<1>>, <<3>>, <<4>>, <<2, 2>>, <<2, 3>>, <<3, 2>>, <<1, 3>>, <<2, 2, 2>>, <<1, 2, 3>>, <<2, 1, 2>>}
Masks(sh) == IF Prod(sh) <= 6 THEN [1..Prod(sh) -> BOOLEAN]
             ELSE {[p \in 1..Prod(sh) |-> FALSE], [p \in 1..Prod(sh) |-> TRUE], [p \in 1..Prod(sh) |-> p % 2 = 0],
                   [p \in 1..Prod(sh) |-> p = 1], [p \in 1..Prod(sh) |-> p \in {2, 3, 7}], [p \in 1..Prod(sh) |-> p # 5]}
Cases == UNION {{[shape |-> sh, order |-> o, mask |-> m, form |-> f, quant |-> q] :
                   o \in {"C", "F"}, m \in Masks(sh), f \in {"masked", "maskarg"}, q \in BOOLEAN} : sh \in Shapes}
         \cup {[shape |-> sh, order |-> o, mask |-> [p \in 1..Prod(sh) |-> FALSE], form |-> "nomask", quant |-> q] :
                   sh \in Shapes, o \in {"C", "F"}, q \in BOOLEAN}

(* round trip theorem on the specification itself *)
ASSUME \A c \in Cases :
   LET v == Compress(c.shape, c.order, c.mask) e == Expand(c.shape, c.order, c.mask, v)
   IN /\ Len(v) = Cardinality({p \in 1..Prod(c.shape) : ~c.mask[p]})
      /\ \A p \in 1..Prod(c.shape) : ~c.mask[p] => e[p] = 10 + p
=============================================================================
