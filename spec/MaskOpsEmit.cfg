INIT Init
NEXT Next
