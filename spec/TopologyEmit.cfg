INIT Init
NEXT Next
