"""C07: metadata agreement after connect (Meta.tla)."""
import random

from . import tlc
from .check_sched import finish
from .common import seed
from .evidence import Evidence, save_replay
from .fn_engine import replay_fn, run_cases
from .common import jdump

RUNNER = ("meta_run", "run_case")


def check(pid, tier):
    ev = Evidence(pid, tier)
    out_lines, violations, machinery = [], [], []
    rng = random.Random(seed())
    fac = tlc.emit("MetaEmit", {"FULL": "1" if tier == "thorough" else "0"})[0]      # also evaluates the theorems (ASSUME) over PInfos x CInfos
    P, C = fac["pinfos"], fac["cinfos"]
    ev.cov["states"] += len(P) * len(C)
    ev.cov["transitions"] += len(P) * len(C)
    ev.cov["runs"].append({"kind": "tlc-theorems", "module": "Meta", "pairs": len(P) * len(C),
                           "what": "Exchange = ok iff no conflict and fillable; on success no unset field, "
                                   "grids/units/masks compatible, unset fields filled from the other side"})
    n1 = 14000 if tier == "quick" else len(P) * len(C)
    if tier == "quick":
        cases = [{"po": rng.choice(P), "ci": rng.choice(C), "c2": C[0], "via": rng.choice(["direct", "pass"]),
                  "two": False} for _ in range(n1)]
        ev.cov["exhaustive"] = False
    else:
        cases = [{"po": p, "ci": c, "c2": C[0], "via": "direct" if (i + j) % 2 else "pass", "two": False}
                 for i, p in enumerate(P) for j, c in enumerate(C)]
    cases += [{"po": rng.choice(P), "ci": rng.choice(C), "c2": rng.choice(C), "via": "direct", "two": True}
              for _ in range(6000 if tier == "quick" else 100000)]
    # a units-rewriting adapter (SumOverTime, per_time) on the link
    for po in P:
        if po["units"] in ("m", "km", "s") and po["mask"] in ("flex", "nomask") and po["foo"] == "absent":
            for cu in ("none", "m", "s", "ms", "kms"):
                cases.append({"po": po, "ci": {"time": "t", "grid": po["grid"] if po["grid"] != "none" else "g",
                                                 "units": cu, "mask": "flex", "foo": "absent"},
                              "c2": C[0], "via": "sumtime", "two": False})
    from .meta_run import share_cases
    cases += share_cases()                 # one mask array object shared by producer and consumer
    traces = run_cases(*RUNNER, cases)
    herr = [t for t in traces if "harness_error" in t]
    if herr:
        machinery.append(f"{len(herr)} harness errors, first: {herr[0]['harness_error']}")
        traces = [t for t in traces if "harness_error" not in t]
    acc, tot, bad, gen, _ = tlc.validate("Meta_Trace", traces)
    ev.add_traces("Meta_Trace", acc, tot, gen)
    ok = [t for t in traces if t["obs"]["res"] == "ok"]
    ev.cov["distinct_nontrivial"] = len({jdump(t["case"]) for t in ok})
    ev.cov["rule"] = ("producer/consumer info pairs from the product enumerated by TLC (Meta.tla), each exchanged "
                      "between a real Output and real Input(s), directly or through a pass-through adapter; "
                      "non-trivial = exchange succeeded (all fields had to be merged)")
    ev.cov["outcomes"] = {"ok": len(ok), "rejected": len(traces) - len(ok)}
    if not ok or len(ok) == len(traces):
        machinery.append("vacuous: accepted or rejected exchanges missing")
    for t in (ok[:1] + traces[:1]):
        ev.sample(t)
    for k, verdict in sorted(bad.items()):
        t = traces[k]
        path = save_replay(pid, {"kind": "meta-case", "verdict": verdict, "trace": t}) if len(violations) < 10 else "(not saved)"
        violations.append((pid, f"case rejected: {verdict} case={jdump(t['case'])[:400]} obs={jdump(t['obs'])[:300]}", path))
    # metadata that components derive with transfer rules: after connect the exchanged infos of the slots
    # carry what the other side declared, untouched by later rules (ConnectOps.OutM / InM)
    shapes = tlc.emit("ConnectEmit", {"FAMILY": "chain3"})
    if tier == "quick":
        shapes = rng.sample(shapes, min(len(shapes), 600))
    tr = [t for t in run_cases("connect_run", "run_case", shapes) if "harness_error" not in t]
    acc, tot, bad, gen, _ = tlc.validate("Connect_Trace", tr)
    ev.add_traces("Connect_Trace/metadata-provenance (chain3)", acc, tot, gen)
    for k, verdict in sorted(bad.items()):
        if verdict.split("@")[0] != "metadata-provenance":
            continue                                   # every other clause of that monitor belongs to C06
        path = save_replay(pid, {"kind": "connect-trace", "verdict": verdict, "trace": tr[k]}) if len(violations) < 10 else "(not saved)"
        violations.append((pid, f"metadata derived by transfer rules: {verdict} end={tr[k]['end']}", path))
    negotiation(pid, tier, ev, rng, violations, machinery)
    return finish(pid, ev, out_lines, violations, machinery)


NEG_CFG = """SPECIFICATION Spec
CONSTANTS Variant = "{variant}" NCons = {ncons} Wide = {wide}
INVARIANT Agreement
INVARIANT ConflictRejected
INVARIANT Provenance
PROPERTY Negotiated
PROPERTY Ends
PROPERTY SucceedsWhenPossible
CHECK_DEADLOCK FALSE
"""
NEG_GUARDS = """SPECIFICATION Spec
CONSTANTS Variant = "intended" NCons = 2 Wide = FALSE
INVARIANT {guard}
CHECK_DEADLOCK FALSE
"""


def negotiation(pid, tier, ev, rng, violations, machinery):
    """One output with unset fields negotiating with several consumers over the connect rounds
    (MetaNeg.tla): design level by TLC over all exchange orders, real Composition.connect() runs
    validated exchange by exchange by MetaNeg_Trace."""
    # (three consumers are covered by the validated real runs only: the exhaustive model with NCons = 3 did not
    #  finish within 10 minutes - 5e5 initial configurations with liveness checking)
    runs = [(2, "FALSE")] if tier == "quick" else [(2, "TRUE")]
    for ncons, wide in runs:
        r = tlc.model_check("MetaNeg", NEG_CFG.format(variant="intended", ncons=ncons, wide=wide), coverage=True)
        ev.add_mc(f"MetaNeg NCons={ncons} Wide={wide}", r, {"NCons": ncons, "Wide": wide, "Variant": "intended"})
        ev.cov["runs"][-1]["coverage"] = r.coverage
        if not r.ok:
            machinery.append(f"MetaNeg design-level check failed: {r.violated}")
        if r.coverage and r.coverage.get("Exch", {}).get("taken", 0) == 0:
            machinery.append("MetaNeg: action Exch never taken")
    neg = tlc.model_check("MetaNeg", NEG_CFG.format(variant="repush", ncons=2, wide="FALSE"))
    ev.cov["runs"].append({"kind": "negative-control", "name": "MetaNeg Variant=repush", "violated": neg.violated})
    if not neg.violated:
        machinery.append("negative control: a re-pushed output info that replaces the negotiated one was not refuted")
    for g in ("NeverOk", "NeverErr", "NeverFilled"):
        gr = tlc.model_check("MetaNeg", NEG_GUARDS.format(guard=g))
        if g not in gr.violated:
            machinery.append(f"vacuity guard {g} of MetaNeg did not fire")
    from . import metaneg_run
    fac = tlc.emit("MetaNegEmit", {})[0]
    cases = metaneg_run.expand(fac["pinfos"], fac["cinfos"], rng, 4000 if tier == "quick" else 40000)
    # a sample of configurations under every listing order
    for c in rng.sample(cases, 40 if tier == "quick" else 400):
        if len(c["order"]) <= 4:
            cases += metaneg_run.all_orders(c)
    tr = run_cases("metaneg_run", "run_case", cases)
    herr = [t for t in tr if "harness_error" in t]
    if herr:
        machinery.append(f"{len(herr)} harness errors (negotiation), first: {herr[0]['harness_error']}")
        tr = [t for t in tr if "harness_error" not in t]
    acc, tot, bad, gen, _ = tlc.validate("MetaNeg_Trace", tr)
    ev.add_traces("MetaNeg_Trace", acc, tot, gen)
    ok = [t for t in tr if t["end"]["res"] == "ok"]
    late = [t for t in ok if t["cfg"]["fresh"] and len({e["k"] for e in t["ev"]}) > 1]
    ev.cov["negotiation"] = {"connected": len(ok), "rejected": len(tr) - len(ok),
                             "fresh_info_every_call_and_several_exchanges": len(late)}
    ev.cov["distinct_nontrivial"] += len({jdump(t["case"]) for t in ok})
    if not ok or len(ok) == len(tr) or not late:
        machinery.append("vacuous: negotiation runs lack connected / rejected / repeated-info cases")
    if ok:
        ev.sample(ok[0])
    for k, verdict in sorted(bad.items()):
        path = save_replay(pid, {"kind": "metaneg-trace", "verdict": verdict, "trace": tr[k]}) if len(violations) < 10 else "(not saved)"
        violations.append((pid, f"metadata negotiation: {verdict} cfg={jdump(tr[k]['cfg'])[:300]} end={jdump(tr[k]['end'])[:200]}", path))


def replay(pid, path):
    import json
    with open(path) as f:
        kind = json.load(f).get("kind")
    if kind == "connect-trace":
        from . import check_c06
        return check_c06.replay(pid, path)
    if kind == "metaneg-trace":
        return replay_fn(pid, path, "MetaNeg_Trace", ("metaneg_run", "run_case"), lambda v, c: "C07")
    return replay_fn(pid, path, "Meta_Trace", RUNNER, lambda v, c: "C07")
