"""C19: composition validation (Topology.tla)."""
from .check_sched import finish
from .evidence import Evidence
from .fn_engine import replay_fn, run_fn

RUNNER = ("topology_run", "run_case")


def clause_property(verdict, case):
    return "C19"


def check(pid, tier):
    ev = Evidence(pid, tier)
    out_lines, violations, machinery = [], [], []
    traces, _ = run_fn(pid, ev, violations, machinery, "TopologyEmit", "Topology_Trace", RUNNER, clause_property,
                       "topology-case", emit_env={"DEPTH": "2" if tier == "quick" else "3"},
                       cap=6000 if tier == "quick" else 150000,
                       nontrivial=lambda t: len(t["case"]["chain"]) >= 1)
    res = {}
    for t in traces:
        res[t["obs"]["res"]] = res.get(t["obs"]["res"], 0) + 1
    ev.cov["outcome_classes"] = res
    if res.get("ok", 0) == 0 or res.get("err:FinamConnectError", 0) == 0:
        machinery.append("vacuous: accepted or rejected topologies missing")
    ev.cov["rule"] = ("link topologies enumerated by TLC from Topology.tla (chains of 0-2/3 adapters of five kinds, "
                      "three source kinds, three leaf kinds, missing owners, unconnected input, one optional second "
                      "branch at every position), each built from real slots/adapters; non-trivial = at least one adapter")
    return finish(pid, ev, out_lines, violations, machinery)


def replay(pid, path):
    return replay_fn(pid, path, "Topology_Trace", RUNNER, clause_property)
