"""C18: masked data (MaskOps.tla for compression / preparation; the acceptance table of
Meta.tla restricted to the mask / layout dimensions for the connect rules)."""
import itertools

from . import tlc
from .check_sched import finish
from .common import jdump
from .evidence import Evidence, save_replay
from .fn_engine import replay_fn, run_cases, run_fn

RUNNER = ("mask_run", "run_case")


def clause_property(verdict, case):
    return "C18"


def check(pid, tier):
    ev = Evidence(pid, tier)
    out_lines, violations, machinery = [], [], []
    run_fn(pid, ev, violations, machinery, "MaskOpsEmit", "MaskOps_Trace", RUNNER, clause_property, "mask-case",
           nontrivial=lambda t: any(t["case"]["mask"]) and not all(t["case"]["mask"]))
    # "preparing data under metadata with a fixed mask applies exactly that mask": the fixed-mask
    # cases of Payload.tla (every payload form, also flat, on both grid layouts, static links)
    run_fn(pid, ev, violations, machinery, "PayloadEmit", "Payload_Trace", ("payload_run", "run_case"),
           lambda verdict, case: "C18" if verdict.split("@")[0] in ("payload-mask", "payload-accepted") else "C08",
           "payload-case", emit_env={"WHAT": "fixedmask"}, nontrivial=lambda t: t["obs"]["res"] == "ok")
    # acceptance table: consumer FLEX / NONE / fixed x producer mask x grid layout
    masks, grids = ["flex", "nomask", "M", "N", "E", "E0"], ["g", "g2", "g3", "g4"]
    cases = []
    for pm, cm, pg, cg in itertools.product(masks, masks, grids, grids):
        base = {"time": "t", "units": "m", "foo": "absent"}
        cases.append({"po": dict(base, grid=pg, mask=pm), "ci": dict(base, grid=cg, mask=cm),
                      "c2": dict(base, grid=cg, mask=cm), "via": "direct", "two": False})
    for pm, cm, pg, cg in itertools.product(masks, masks, ["l", "lr"], ["l", "lr"]):      # one-dimensional grids
        base = {"time": "t", "units": "m", "foo": "absent"}
        cases.append({"po": dict(base, grid=pg, mask=pm), "ci": dict(base, grid=cg, mask=cm),
                      "c2": dict(base, grid=cg, mask=cm), "via": "direct", "two": False})
    from .meta_run import share_cases
    cases += share_cases()                 # one mask array object shared by producer and consumer
    traces = [t for t in run_cases("meta_run", "run_case", cases) if "harness_error" not in t]
    acc, tot, bad, gen, _ = tlc.validate("Meta_Trace", traces)
    ev.add_traces("Meta_Trace/mask-acceptance", acc, tot, gen)
    for k, verdict in sorted(bad.items()):
        path = save_replay(pid, {"kind": "meta-case", "verdict": verdict, "trace": traces[k]})
        violations.append((pid, f"mask acceptance: {verdict} case={jdump(traces[k]['case'])[:300]}", path))
    ev.cov["rule"] = ("every case of MaskOps.tla (shapes up to 3 dimensions / 8 elements, both orders, all masks for "
                      "<= 6 elements, masked arrays / mask argument / nomask, plain and quantified) on the public "
                      "helpers, plus all 576 + 144 producer x consumer mask x layout (four layouts of one 2-D geometry, two of a 1-D one) combinations of the acceptance table; "
                      "non-trivial = partial mask")
    return finish(pid, ev, out_lines, violations, machinery)


def replay(pid, path):
    import json
    with open(path) as f:
        kind = json.load(f).get("kind")
    if kind == "payload-case":
        return replay_fn(pid, path, "Payload_Trace", ("payload_run", "run_case"), clause_property)
    if kind == "meta-case":
        return replay_fn(pid, path, "Meta_Trace", ("meta_run", "run_case"), clause_property)
    return replay_fn(pid, path, "MaskOps_Trace", RUNNER, clause_property)
