"""Runs the metadata negotiation of one output with several consumers (MetaNeg.tla) inside a real
Composition.connect(): the consumers exchange in different connect rounds (a consumer may wait a
number of rounds, or sit behind finam's TimeTrigger whose input info is derived from its own output),
the producer may pass its output info again in every connect call.  Every Input.exchange_info that
returns (or raises something else than "no data yet") is recorded in order."""
import itertools
import shutil
import tempfile

from .common import day, import_finam
from .meta_run import make_info, project

fm = import_finam()

from finam.interfaces import ComponentStatus  # noqa: E402

DAY = day(1) - day(0)


class Prod(fm.TimeComponent):
    def __init__(self, po, fresh):
        super().__init__()
        self._name = "P"
        self.po, self.fresh = po, fresh
        self.time = day(0)

    def _next_time(self):
        return self.time + DAY

    def _initialize(self):
        if self.fresh:
            self.outputs.add(name="Out")
        else:
            self.outputs.add(name="Out", info=make_info(self.po))
        self.create_connector()

    def _connect(self, start_time):
        push_data = {}
        info = self.connector.out_infos["Out"]
        if info is not None and not self.connector.data_pushed["Out"]:
            push_data["Out"] = fm.data.full(1.0, info)
        kw = {"push_infos": {"Out": make_info(self.po)}} if self.fresh else {}
        self.try_connect(start_time, push_data=push_data, **kw)

    def _validate(self):
        pass

    def _update(self):
        self.time += DAY

    def _finalize(self):
        pass


class Cons(fm.TimeComponent):
    """Consumer that exchanges its info after `lag` connect calls in which it only claims progress."""

    def __init__(self, idx, ci, lag):
        super().__init__()
        self._name = f"C{idx}"
        self.ci, self.lag, self.calls = ci, lag, 0
        self.time = day(0)

    def _next_time(self):
        return self.time + DAY

    def _initialize(self):
        self.inputs.add(name="In")
        self.create_connector()

    def _connect(self, start_time):
        self.calls += 1
        if self.calls <= self.lag:
            self.status = ComponentStatus.CONNECTING        # busy with something else
            return
        self.try_connect(start_time, exchange_infos={"In": make_info(self.ci)})

    def _validate(self):
        pass

    def _update(self):
        self.time += DAY

    def _finalize(self):
        pass


class Sink(Cons):
    """All-unset consumer behind a TimeTrigger."""

    def _initialize(self):
        self.inputs.add(name="In", info=fm.Info(time=None, grid=None, units=None))
        self.create_connector()

    def _connect(self, start_time):
        self.try_connect(start_time)


def run_case(cfg):
    events = []
    prod = Prod(cfg["po"], cfg["fresh"])
    comps, inputs = [prod], []
    for k, (ci, lag, kind, via) in enumerate(zip(cfg["cs"], cfg["lags"], cfg["kinds"], cfg["vias"]), start=1):
        if kind == "trigger":
            out_info = make_info(dict(ci, time="none"))
            c = fm.components.TimeTrigger(start=day(0), step=DAY, in_info=None, out_info=out_info)
            snk = Sink(100 + k, None, 0)
            comps += [c, snk]
        else:
            c = Cons(k, ci, lag)
            comps.append(c)
            snk = None
        inputs.append((k, c, via, snk))
    order = cfg["order"]
    listed = [comps[i] for i in order] if len(order) == len(comps) else comps
    memdir = tempfile.mkdtemp(prefix="fv-mem-")
    end = {"res": "ok", "out": project(None), "inps": []}
    try:
        composition = fm.Composition(listed, print_log=False, slot_memory_location=memdir)
        for k, c, via, snk in inputs:
            inp = c.inputs["In"]
            if via == "pass":
                prod.outputs["Out"] >> fm.adapters.Scale(1.0) >> inp  # pylint: disable=expression-not-assigned
            else:
                prod.outputs["Out"] >> inp  # pylint: disable=pointless-statement
            if snk is not None:
                c.outputs["Out"] >> snk.inputs["In"]  # pylint: disable=pointless-statement
            orig = inp.exchange_info

            def exchange_info(info=None, k=k, orig=orig):
                if len(events) > 50:
                    raise RuntimeError("exchange does not terminate")
                try:
                    res = orig(info)
                except fm.errors.FinamNoDataError:
                    raise
                except Exception as e:  # pylint: disable=broad-except
                    events.append({"k": k, "res": "err:" + type(e).__name__, "inp": project(None),
                                   "out": project(prod.outputs["Out"]._output_info)})  # noqa: SLF001
                    raise
                events.append({"k": k, "res": "ok", "inp": project(res),
                               "out": project(prod.outputs["Out"]._output_info)})  # noqa: SLF001
                return res

            inp.exchange_info = exchange_info
        try:
            composition.connect(day(0))
        except Exception as e:  # pylint: disable=broad-except
            end["res"] = "err:" + type(e).__name__
        end["out"] = project(prod.outputs["Out"]._output_info)  # noqa: SLF001
        end["inps"] = [project(c.inputs["In"].info) for _, c, _, _ in inputs]
    finally:
        shutil.rmtree(memdir, ignore_errors=True)
    return {"case": cfg, "cfg": cfg, "ev": events, "end": end}


def expand(P, C, rng, n, ncons_choices=(2, 3)):
    """Configurations: TLC's producer / consumer infos x lags x link kinds x listing orders."""
    cases = []
    while len(cases) < n:
        nc = rng.choice(ncons_choices)
        po = rng.choice(P)
        if rng.random() < 0.75:                 # mostly consumers that do not conflict at first sight
            pool = [c for c in C if c["grid"] in ("none", "g", "g2") and c["units"] in ("none", "m", "km")
                    and (c["mask"] == "flex" or c["mask"] == po["mask"])]
            cs = [rng.choice(pool) if rng.random() < 0.9 else rng.choice(C) for _ in range(nc)]
        else:
            cs = [rng.choice(C) for _ in range(nc)]
        kinds = []
        for ci in cs:
            ok_trig = ci["grid"] != "none" and ci["units"] != "none" and ci["mask"] == "flex"   # the derived info carries no mask
            kinds.append("trigger" if ok_trig and rng.random() < 0.3 else "plain")
        ncomp = 1 + sum(2 if kd == "trigger" else 1 for kd in kinds)
        order = list(range(ncomp))
        rng.shuffle(order)
        cases.append({"po": po, "cs": cs, "fresh": rng.random() < 0.6,
                      "lags": [rng.choice([0, 0, 1, 2]) for _ in cs], "kinds": kinds,
                      "vias": [rng.choice(["direct", "pass"]) for _ in cs], "order": order})
    return cases


def all_orders(case):
    n = len(case["order"])
    return [dict(case, order=list(p)) for p in itertools.permutations(range(n))]
