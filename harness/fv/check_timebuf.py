"""Checks decided with the time-buffer specification (TimeBuf.tla / TimeBuf_Trace.tla):
C11 (interpolation), C12 (integration); adapter-side engine runs of C10."""
from .check_sched import finish
from .evidence import Evidence
from .script_engine import Engine


def clause_property(verdict, cfg):
    base = verdict.split("@")[0]
    integ = cfg["kind"] in ("avg", "sum")
    if base in ("value", "value-missing", "range", "pull-raised", "notify-raised"):
        if cfg["limit"] != -1:
            return "C10"
        return "C12" if integ else "C11"
    if base == "units":
        return "C12"
    if base in ("spill-threshold", "files-accounting", "files-in-location", "no-files-after-finalize",
                "finalize-raised"):
        return "C10"
    return None      # buffer-retained: informational (C11 only constrains results)


MC_TMPL = """SPECIFICATION Spec
CONSTANTS MaxLen = {maxlen}
 MaxPub = {maxpub}
 Gaps = {{{gaps}}}
 Vals = {{{vals}}}
 CfgSet = "{cfgset}"
{extra}
CHECK_DEADLOCK FALSE
"""
INVS = ["InvEvict", "InvAvg", "InvExact", "InvRange", "InvAdditive", "InvAccounting"]
ENGINE = Engine("TimeBuf", "TimeBuf_Trace", "timebuf_run", MC_TMPL, INVS, clause_property, "timebuf-trace")


def P(cfgset, maxlen, maxpub, gaps, vals):
    return dict(cfgset=cfgset, maxlen=maxlen, maxpub=maxpub, gaps=", ".join(map(str, gaps)),
                vals=", ".join(map(str, vals)))


PLAN = {
    "C11": dict(
        mc={"quick": [P("interp", 7, 4, (1, 2, 4), (1, 4, 9))],
            "thorough": [P("interp", 8, 5, (1, 2, 4), (1, 4, 9)), P("interpgrid", 7, 4, (2, 3), (1, 4))]},
        gen={"quick": [(P("interp", 5, 3, (2, 3), (1, 4)), None, 6000), (P("interp", 12, 6, (1, 2, 3, 4), (0, 3, 10)), 1500, 2500),
                       (P("interpgrid", 10, 5, (1, 2, 4), (1, 6)), 500, 800), (P("interphole", 12, 6, (1, 2, 3), (1, 6)), 800, 1200)],
             "thorough": [(P("interphole", 14, 7, (1, 2, 3), (1, 6)), 8000, None), (P("interp", 5, 3, (2, 3, 4), (1, 4)), None, None), (P("interp", 14, 7, (1, 2, 3, 4), (0, 3, 10)), 15000, None),
                          (P("interpgrid", 12, 6, (1, 2, 3, 4), (1, 6)), 8000, None)]}),
    "C12": dict(
        mc={"quick": [P("integ", 7, 4, (1, 2), (1, 4))],
            "thorough": [P("integ", 8, 4, (1, 2, 4), (1, 4, 9)), P("integgrid", 7, 4, (2, 3), (1, 4))]},
        gen={"quick": [(P("integ", 5, 3, (2, 3), (1, 4)), None, 6000), (P("integ", 12, 6, (1, 2, 3, 4), (0, 3, 10)), 1500, 2500),
                       (P("integgrid", 10, 5, (1, 2, 4), (1, 6)), 400, 600), (P("integhole", 12, 6, (1, 2, 3), (1, 6)), 1000, 1500)],
             "thorough": [(P("integhole", 14, 7, (1, 2, 3), (1, 6)), 10000, None), (P("integ", 5, 3, (2, 3), (1, 4)), None, None), (P("integ", 14, 7, (1, 2, 3, 4), (0, 3, 10)), 15000, None),
                          (P("integgrid", 12, 6, (1, 2, 3, 4), (1, 6)), 8000, None)]}),
    "C10": dict(
        mc={"quick": [P("spill", 6, 3, (2,), (1, 4))],
            "thorough": [P("spill", 8, 4, (1, 2), (1, 4)), P("spillmasked", 7, 4, (2,), (1, 4))]},
        gen={"quick": [(P("spill", 5, 3, (2,), (1, 4)), None, 3000), (P("spillmasked", 5, 3, (2,), (1, 4)), None, 2000),
                       (P("spill", 12, 6, (1, 2, 3), (1, 5)), 600, 1200)],
             "thorough": [(P("spill", 5, 3, (2, 3), (1, 4)), None, None), (P("spillmasked", 5, 3, (2, 3), (1, 4)), None, None),
                          (P("spill", 14, 7, (1, 2, 3), (1, 5)), 20000, None)]}),
}


def run_engine(pid, tier, ev, violations, machinery):
    from .timebuf_run import tick_variants
    ENGINE.run(pid, tier, dict(PLAN[pid], derive=tick_variants), ev, violations, machinery)


def check(pid, tier):
    ev = Evidence(pid, tier)
    out_lines, violations, machinery = [], [], []
    run_engine(pid, tier, ev, violations, machinery)
    return finish(pid, ev, out_lines, violations, machinery)


def replay(pid, path):
    return ENGINE.replay(pid, path)
