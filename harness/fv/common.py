"""Shared plumbing of the finam verification harness (paths, finam import hygiene)."""
import contextlib
import datetime as dt
import json
import logging
import os
import shutil
import sys
import tempfile
import warnings

VERIF = os.path.dirname(os.path.dirname(os.path.dirname(os.path.abspath(__file__))))
SPEC = os.path.join(VERIF, "spec")
REPO = os.environ.get("FINAM_REPO", "/repo")
GUARD = "FINAM_VERIF"

T0 = dt.datetime(2000, 1, 1)


TICK = dt.timedelta(days=1)


def set_tick(tick=None):
    """Length of one specification tick as [num, den] seconds (default one day).  The specifications count
    time in integer ticks; which physical duration a tick has is a choice of the harness (days, seconds,
    fractions of a second, microseconds) and must not matter for finam."""
    global TICK  # pylint: disable=global-statement
    num, den = tick or (86400, 1)
    us, rem = divmod(num * 1000000, den)
    if rem:
        raise ValueError(f"tick {num}/{den} s is not a whole number of microseconds")
    TICK = dt.timedelta(microseconds=us)


def day(n):
    """Tick -> datetime (one tick = one day unless the case says otherwise, see set_tick)."""
    return T0 + n * TICK


def ticks(t, per_day=1):
    """datetime -> integer tick (exact, raises when not on the tick grid)."""
    if t is None:
        return -1
    n, rem = divmod((t - T0) * per_day, TICK)
    if rem:
        raise ValueError(f"time {t} is not on the tick grid")
    return int(n)


def import_finam():
    """Import finam from the working tree under test (/repo/src, or FINAM_SRC)."""
    src = os.environ.get("FINAM_SRC", os.path.join(REPO, "src"))
    if src not in sys.path:
        sys.path.insert(0, src)
    warnings.filterwarnings("ignore")
    logging.disable(logging.CRITICAL)
    os.environ.setdefault(GUARD, "1")
    import finam  # noqa: E402

    got = os.path.realpath(os.path.dirname(os.path.dirname(finam.__file__)))
    if got != os.path.realpath(src):
        raise RuntimeError(f"finam imported from {got}, expected {src}")
    return finam


@contextlib.contextmanager
def scratch_dir(prefix="fv-"):
    d = tempfile.mkdtemp(prefix=prefix)
    try:
        yield d
    finally:
        shutil.rmtree(d, ignore_errors=True)


@contextlib.contextmanager
def in_dir(path):
    old = os.getcwd()
    os.chdir(path)
    try:
        yield
    finally:
        os.chdir(old)


def jdump(obj):
    return json.dumps(obj, separators=(",", ":"), sort_keys=True)


def seed():
    return int(os.environ.get("VERIF_SEED", "0"))
