"""Executes one metadata exchange case (Meta.tla) with real Output / Input / Info objects."""
from .common import day, import_finam

fm = import_finam()
import numpy as np  # noqa: E402

G = fm.UniformGrid((4, 3))                        # cells 3 x 2
G2 = fm.UniformGrid((4, 3), axes_reversed=True)   # same geometry, data shape (2, 3)
G3 = fm.UniformGrid((4, 3), axes_increase=[False, True])   # same geometry, x stored decreasing
G4 = fm.UniformGrid((4, 3), axes_increase=[True, False])   # same geometry, y stored decreasing
L1 = fm.UniformGrid((4,))                                  # one-dimensional, 3 cells
L1R = fm.UniformGrid((4,), axes_increase=[False])          # the same cells stored in decreasing order
H = fm.UniformGrid((5, 3))
GC = fm.UniformGrid((4, 3), crs="EPSG:25832")     # the node coordinates of G, read in another CRS
NG = fm.NoGrid()
GRIDS = {"none": None, "g": G, "g2": G2, "g3": G3, "g4": G4, "h": H, "gc": GC, "nogrid": NG, "l": L1, "lr": L1R}
SAME = ("g", "g2", "g3", "g4")
M1_CANON = np.array([True, False, False])
N1_CANON = np.array([False, False, True])
M_CANON = np.array([[True, False], [False, False], [False, True]])
N_CANON = np.array([[False, False], [True, False], [False, False]])
H_M = np.array([[True, False], [False, False], [False, True], [False, False]])
H_N = np.array([[False, False], [True, False], [False, False], [False, False]])


def mask_for(tok, gridtok):
    if tok == "flex":
        return fm.Mask.FLEX
    if tok == "nomask":
        return fm.Mask.NONE
    if tok == "E0":
        return np.ma.nomask
    if tok == "E":
        shape = {"g": (3, 2), "g2": (2, 3), "g3": (3, 2), "g4": (3, 2), "h": (4, 2), "gc": (3, 2), "l": (3,), "lr": (3,)}[gridtok]
        return np.zeros(shape, dtype=bool)
    if gridtok == "h":
        return H_M if tok == "M" else H_N
    if gridtok in ("l", "lr"):
        return GRIDS[gridtok].from_canonical(M1_CANON if tok == "M" else N1_CANON)
    if gridtok == "gc":
        gridtok = "g"
    canon = M_CANON if tok == "M" else N_CANON
    return GRIDS[gridtok].from_canonical(canon)


UNITS_STR = {"ms": "m s", "kms": "km s", "s2": "s2"}


def make_info(i, mask_obj=None):
    meta = {}
    if i["foo"] != "absent":
        meta["foo"] = None if i["foo"] == "none" else i["foo"]
    return fm.Info(time=None if i["time"] == "none" else day(0), grid=GRIDS[i["grid"]],
                   units=None if i["units"] == "none" else UNITS_STR.get(i["units"], i["units"]),
                   mask=mask_for(i["mask"], i["grid"]) if mask_obj is None else mask_obj, **meta)


def grid_tok(g):
    if g is None:
        return "none"
    if isinstance(g, fm.NoGrid):
        return "nogrid"
    for tok in ("g", "g2", "g3", "g4", "h", "gc", "l", "lr"):
        if g == GRIDS[tok] and g.crs == GRIDS[tok].crs:        # StructuredGrid.__eq__ compares geometry and layout
            return tok
    return "?"


def mask_tok(m, g):
    if m is fm.Mask.FLEX:
        return "flex"
    if m is fm.Mask.NONE:
        return "nomask"
    if m is None:
        return "none"
    if m is np.ma.nomask:
        return "E0"
    arr = np.asarray(m)
    if arr.ndim > 0 and not arr.any():
        return "E"
    gt = grid_tok(g)
    cands = {"M": mask_for("M", gt if gt in SAME + ("h", "gc", "l", "lr") else "g"),
             "N": mask_for("N", gt if gt in SAME + ("h", "gc", "l", "lr") else "g")}
    for tok, ref in cands.items():
        if arr.shape == ref.shape and np.array_equal(arr, ref):
            return tok
    # the mask may be laid out for the other layout of the same geometry
    for tok in ("M", "N"):
        for gt2 in SAME:
            ref = mask_for(tok, gt2)
            if arr.shape == ref.shape and np.array_equal(arr, ref):
                return tok + "@" + gt2
    return "?"


def project(info):
    if info is None:
        return {"time": "none", "grid": "none", "units": "none", "mask": "none", "foo": "absent"}
    foo = "absent"
    if "foo" in info.meta:
        foo = "none" if info.meta["foo"] is None else str(info.meta["foo"])
    u = info.units
    ustr = "none" if u is None else {"m * s": "ms", "km * s": "kms", "m s": "ms", "km s": "kms", "s ** 2": "s2", "s2": "s2"}.get(f"{u:~}", f"{u:~}")
    return {"time": "none" if info.time is None else "t", "grid": grid_tok(info.grid),
            "units": ustr, "mask": mask_tok(info.mask, info.grid), "foo": foo}


def run_case(case):
    out = fm.Output(name="Out")
    inputs = [fm.Input(name="In")] + ([fm.Input(name="In2")] if case.get("two") else [])
    for inp in inputs:
        if case["via"] == "pass":
            out >> fm.adapters.Scale(1.0) >> inp  # pylint: disable=expression-not-assigned
        elif case["via"] == "sumtime":
            out >> fm.adapters.SumOverTime(per_time=True) >> inp  # pylint: disable=expression-not-assigned
        else:
            out >> inp  # pylint: disable=pointless-statement
    for inp in inputs:
        inp.ping()
    obs = {"res": "ok", "out": None, "inp": None, "inp2": None}
    try:
        po_info = make_info(case["po"])
        out.push_info(po_info)
        # share: producer and consumer were given the very same mask array object (the token in ci says what
        # that array means on the consumer's grid)
        inputs[0].exchange_info(make_info(case["ci"], po_info.mask if case.get("share") else None))
        if case.get("two"):
            inputs[1].exchange_info(make_info(case["c2"]))
    except Exception as e:  # pylint: disable=broad-except
        obs["res"] = "err:" + type(e).__name__
    obs["out"] = project(out._output_info)        # noqa: SLF001 (the Output's info, also before it is "complete")
    obs["inp"] = project(inputs[0].info)
    obs["inp2"] = project(inputs[1].info) if case.get("two") else project(None)
    return {"case": case, "obs": obs}


FLIPS = {"g": (), "g3": (0,), "g4": (1,), "l": (), "lr": (0,)}


def share_cases():
    """Producer and consumer hold the SAME fixed-mask array object on two layouts of one geometry with equal
    data shape: the token in ci.mask says which mask that array is when read in the consumer's layout."""
    cases = []
    base = {"time": "t", "units": "m", "foo": "absent"}
    for group, canon in ((("g", "g3", "g4"), {"M": M_CANON, "N": N_CANON}), (("l", "lr"), {"M": M1_CANON, "N": N1_CANON})):
        for pg in group:
            for cg in group:
                for pm in ("M", "N"):
                    arr = np.flip(canon[pm], FLIPS[pg]) if FLIPS[pg] else canon[pm]        # the array as stored for pg
                    back = np.flip(arr, FLIPS[cg]) if FLIPS[cg] else arr                    # canonical meaning on cg
                    tok = next((k for k, v in canon.items() if np.array_equal(back, v)), "X")
                    for via in ("direct", "pass"):
                        cases.append({"po": dict(base, grid=pg, mask=pm), "ci": dict(base, grid=cg, mask=tok),
                                      "c2": dict(base, grid=cg, mask=tok), "via": via, "two": False, "share": True})
    return cases
