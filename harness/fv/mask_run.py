"""Executes mask compression / preparation cases (MaskOps.tla) on the public helpers."""
from .common import day, import_finam

fm = import_finam()
import numpy as np  # noqa: E402


def run_case(case):
    sh = tuple(case["shape"])
    n = int(np.prod(sh))
    vals = (np.arange(n, dtype=float) + 11.0).reshape(sh)       # C-flat position p (1-based) -> 10 + p
    mask = np.array(case["mask"], dtype=bool).reshape(sh)
    obs = {"res": "ok", "comp": [], "back": [], "backmask": [], "prep": [], "prepmask": []}
    try:
        if case["form"] == "masked":
            x = np.ma.masked_array(vals.copy(), mask=mask.copy())
            kw = {}
        elif case["form"] == "nomask":
            x = np.ma.masked_array(vals.copy())
            kw = {}
        else:
            x = vals.copy()
            kw = {"mask": mask.copy()}
        if case["quant"]:
            x = fm.UNITS.Quantity(x, "m")
        comp = fm.data.to_compressed(x, order=case["order"], **kw)
        obs["comp"] = [int(round(float(v))) for v in np.asarray(fm.data.get_magnitude(comp) if case["quant"] else comp).ravel()]
        use_mask = np.ma.nomask if case["form"] == "nomask" else mask
        back = fm.data.from_compressed(comp, shape=sh, order=case["order"], mask=use_mask)
        mag = fm.data.get_magnitude(back) if case["quant"] else back
        obs["back"] = [int(round(float(v))) for v in np.ma.getdata(mag).ravel()]
        obs["backmask"] = [bool(b) for b in np.ma.getmaskarray(mag).ravel()]
        # preparing plain data under an info with this fixed mask applies exactly that mask
        grid = fm.NoGrid(len(sh), sh)
        info = fm.Info(time=day(0), grid=grid, units="m", mask=mask.copy())
        prepared = fm.data.prepare(vals.copy(), info)
        pm = fm.data.get_magnitude(prepared)[0, ...]
        obs["prep"] = [int(round(float(v))) for v in np.ma.getdata(pm).ravel()]
        obs["prepmask"] = [bool(b) for b in np.ma.getmaskarray(pm).ravel()]
        obs["back"] = [b if not m else 0 for b, m in zip(obs["back"], obs["backmask"])]
    except Exception as e:  # pylint: disable=broad-except
        obs["res"] = "err:" + type(e).__name__ + ":" + str(e)[:80]
    return {"case": case, "obs": obs}
