"""Checks decided with the scheduler specification (Sched.tla / Sched_Trace.tla):
C01 C02 C03 C04 C05 (and the scheduler-side clauses of C13, C09, C06, C20).

Every check = (1) exhaustive TLC runs of Sched.tla over configuration families with the
property's invariants, (2) negative controls (an as-implemented switch or a known-finding
family must produce the expected counterexample, otherwise the run is vacuous),
(3) every configuration TLC enumerated for the families is executed on the real finam code
and the recorded trace is validated by TLC against Sched_Trace.tla.
"""
import itertools
import multiprocessing as mp
import os
import random
import shutil
import tempfile

from . import tlc
from .clauses import SCHED_INV, sched_property
from .common import jdump, seed
from .evidence import Evidence, match_known, save_replay


def features(cfg):
    """Structural signature of a configuration (used for known findings and evidence)."""
    f = set()
    comps = cfg["comps"]
    readers = {}
    for ci, c in enumerate(comps, start=1):
        for lk in c["ins"]:
            readers.setdefault(lk["src"], []).append(ci)
            ks = [a["k"] for a in lk["chain"]]
            if len([k for k in ks if k in ("fixed", "topull", "topush")]) >= 2:
                f.add("chained_delays")
            bufs = [j for j, k in enumerate(ks) if k in ("buffer", "integ")]
            if bufs and any(k in ("fixed", "topull", "topush") for k in ks[bufs[0] + 1:]):
                f.add("delay_above_buffer")
            # a push-based consumer pulls on notification, like a buffering adapter does
            if c["kind"] == "sink" and any(k in ("fixed", "topull", "topush") for k in ks):
                f.add("delay_above_buffer")
            if ks:
                f.add("adapters")
    for src, rs in readers.items():
        if comps[src - 1]["kind"] == "pull" and len(rs) >= 2:
            f.add("pull_fanout")
        if comps[src - 1]["kind"] == "pull":
            f.add("pull_component")
    if cfg.get("zone", "dag") != "dag":
        f.add("cyclic")
    if any(c["off"] > 0 for c in comps):
        f.add("late_start")
    return sorted(f)


def trace_features(trace, verdict):
    """Configuration features plus features of the event the verdict points at."""
    f = set(features(trace["cfg"]))
    base, _, k = verdict.partition("@")
    comps = trace["cfg"]["comps"]
    if base in ("served", "update-raised", "served-as-modelled", "update-raised-as-modelled") and k.isdigit() \
            and 1 <= int(k) <= len(trace["ev"]):
        e = trace["ev"][int(k) - 1]
        if 1 <= e["c"] <= len(comps) and any(repeat_below_integ(lk["chain"]) for lk in comps[e["c"] - 1]["ins"]) \
                and trace["end"]["out"] in ("err:FinamTimeError", "err:TypeError"):
            f.add("update_pulls_through_repeating_delay_into_integration_adapter")
    if base in ("served", "served-notify", "served-as-modelled") and k.isdigit() and 1 <= int(k) <= len(trace["ev"]):
        e = trace["ev"][int(k) - 1]
        for r in e["log"] + e["nlog"]:
            if not r["ok"]:
                c = r["l"][0]
                readers = sum(1 for x in comps for lk in x["ins"] if lk["src"] == c)
                if 1 <= c <= len(comps) and comps[c - 1]["kind"] == "pull" and readers >= 2 \
                        and r["err"] == "FinamTimeError":
                    f.add("refused_at_input_of_pull_component_with_several_readers")
    return sorted(f)


def repeat_below_integ(chain):
    ks = [a["k"] for a in chain]
    return any(ks[i] in ("topush", "topull", "fixed") and "integ" in ks[i + 1:] for i in range(len(ks)))


def _run_one(job):
    from . import sched_run  # imported in the worker: finam import per process
    cfg, link_order = job[0], job[1]
    limit = job[2] if len(job) > 2 else None
    slot_limit = job[3] if len(job) > 3 else None
    d = tempfile.mkdtemp(prefix="fv-mem-")
    # job[4]: name of the spill location below the scratch root (not created in advance: finam creates it), also
    # names with characters that are special to glob patterns; job[5]: a twin composition sharing the location
    loc = os.path.join(d, job[4]) if len(job) > 4 and job[4] else d
    twin = bool(job[5]) if len(job) > 5 else False
    try:
        tr = sched_run.run(cfg, loc, link_order=link_order, memory_limit=limit, slot_limit=slot_limit, twin=twin)
        tr["end"]["loc"] = job[4] if len(job) > 4 else ""
        tr["end"]["twin"] = twin
        if link_order is not None:
            tr["link_order"] = list(link_order)
        return tr
    except Exception as e:  # harness failure, not a verdict
        return {"harness_error": f"{type(e).__name__}: {e}", "cfg": cfg}
    finally:
        shutil.rmtree(d, ignore_errors=True)


def run_configs(jobs, procs=16):
    with mp.Pool(procs) as pool:
        return pool.map(_run_one, jobs, chunksize=25)


def random_cfgs(n, rng):
    """Seeded random acyclic compositions beyond the TLC-enumerated families (thorough tier):
    3-6 components, steps 1-5 (cyclic sequences of length 1-2), start offsets 0-2, chains of 0-3
    adapters, pull-based components with a single reader.  Traces only: the monitor decides."""
    def ad(k, d=0, nn=0, add=0, b=""):
        return {"k": k, "d": d, "n": nn, "add": add, "b": b or k}
    atoms = [lambda: ad("pass", b="scale"), lambda: ad("fixed", d=rng.randint(1, 4)),
             lambda: ad("topull", nn=rng.randint(1, 3), add=rng.randint(0, 2)), lambda: ad("topush"),
             lambda: ad("buffer", b=rng.choice(["linear", "next", "prev", "step"])),
             lambda: ad("integ", b=rng.choice(["avg", "sum"]))]
    out = []
    while len(out) < n:
        nc = rng.randint(3, 6)
        kinds = ["time"] + [("pull" if rng.random() < 0.2 else "time") for _ in range(nc - 2)] + ["time"]
        comps = []
        readers = {}
        for c in range(1, nc + 1):
            ins = []
            if c > 1:
                srcs = [s for s in range(1, c) if rng.random() < 0.45 and not (kinds[s - 1] == "pull" and readers.get(s))]
                if not srcs or kinds[c - 1] == "pull":
                    cand = [s for s in range(1, c) if not (kinds[s - 1] == "pull" and readers.get(s))]
                    srcs = srcs[:1] or [rng.choice(cand)] if cand else []
                for s in srcs:
                    readers[s] = readers.get(s, 0) + 1
                    pool = atoms[:4] if kinds[s - 1] == "pull" else atoms
                    chain = [rng.choice(pool)() for _ in range(rng.choice([0, 0, 1, 1, 2, 3]))]
                    while repeat_below_integ(chain):     # known finding C01-repeated-time-at-integration
                        chain = [rng.choice(pool)() for _ in range(rng.choice([0, 1, 2, 3]))]
                    ins.append({"src": s, "chain": chain})
            steps = [rng.randint(1, 5) for _ in range(rng.choice([1, 1, 2]))]
            comps.append({"kind": kinds[c - 1], "steps": steps if kinds[c - 1] == "time" else [1],
                          "off": (rng.choice([0, 0, 1, 2]) if kinds[c - 1] == "time" and c > 1 else 0),
                          "ip": bool(kinds[c - 1] == "time" and ins and rng.random() < 0.3), "ins": ins,
                          "u": "m", "ws": False})
        # every pull-based component needs an input and exactly one reader
        if any(k == "pull" and (not comps[i]["ins"] or readers.get(i + 1, 0) != 1) for i, k in enumerate(kinds)):
            continue
        order = list(range(1, nc + 1))
        rng.shuffle(order)
        out.append({"comps": comps, "order": order, "end": rng.randint(4, 9), "zone": "dag", "fam": "random", "tb": 1000})
    return out


MC_TMPL = """{spec}
CONSTANTS Families = {{{fams}}}
 ImplName = "{impl}"
 Mode = "{mode}"
{props}
CHECK_DEADLOCK FALSE
"""


def mc(families, impl, mode, invariants, properties, liveness=False, timeout=3000):
    spec = "SPECIFICATION Spec" if liveness else "INIT Init\nNEXT Next"
    props = "\n".join([f"INVARIANT {i}" for i in invariants] + [f"PROPERTY {p}" for p in properties])
    text = MC_TMPL.format(spec=spec, fams=", ".join(f'"{f}"' for f in families), impl=impl,
                          mode=mode, props=props)
    return tlc.model_check("Sched", text, timeout=timeout)


# ---------------------------------------------------------------------------
# per property: invariants/properties of Sched.tla, families, negative controls
DAG_Q = ["pair", "chain3p", "fanin1", "diamondp", "pullchain2", "pulltwice", "chain3d", "diamondpd", "wsumstatic"]
DAG_T = DAG_Q + ["pairL", "chain3t", "fanin2", "fanout", "fanoutshared", "diamondt", "pair3", "pairXL", "trigger"]
CYC_Q = ["ring2", "pullring", "pullringtail", "pullringtail0", "ringbreak", "ring2tail", "ringfanin", "ringavg"]
CYC_T = CYC_Q + ["ring3", "ring4"]

PLAN = {
    "C01": dict(inv=["NoRefusedPull"], prop=["AvailableAtUpdate"], live=False,
                quick=DAG_Q + ["pullring", "ringbreak", "ring2tail", "ringavg"], thorough=DAG_T + CYC_T,
                neg=[(["pair"], "countabove", ["NoRefusedPull", "AvailableAtUpdate"]),
                     (["pulltwice"], "depmin", ["NoRefusedPull", "AvailableAtUpdate"])],
                known_mc=[(["pullfanout"], "intended", ["NoRefusedPull"], "C01-pull-fanout-eviction"),
                          (["repeatinteg"], "intended", ["NoRefusedPull"], "C01-repeated-time-at-integration")],
                extra_trace=["pullfanout", "repeatinteg", "findep"]),
    "C02": dict(inv=[], prop=["OnlyAllowedChoices"], live=False,
                quick=DAG_Q + ["ring2", "fanin2", "fanoutshared"], thorough=DAG_T + CYC_T,
                neg=[(["pairL"], "nocompose", ["OnlyAllowedChoices"])], known_mc=[], extra_trace=[]),
    "C03": dict(inv=["EndReached"], prop=["Monotone", "NoLateUpdate", "NoUpdateAfterFinished", "Terminates"], live=True,
                quick=["pair", "chain3p", "fanin1", "ring2", "diamondp", "pullchain2", "fanoutshared", "lateidle", "ringfanin",
                       "finisher"],
                thorough=DAG_T + CYC_T + ["lateidle", "finisher"],
                neg=[], known_mc=[], extra_trace=[]),
    "C04": dict(inv=["NoFalseCycle", "UnbrokenNeverErr"],
                prop=["CycleOnlyWhenReachable", "ResolvedCompletes", "UnbrokenReported"], live=True,
                quick=CYC_Q + ["diamondp"], thorough=CYC_T + ["diamondp", "diamondt", "pullchain2"],
                neg=[(["diamondp"], "nopop", ["NoFalseCycle"]),
                     (["pullringtail"], "nokeytime", ["NoFalseCycle"]),
                     (["ring2"], "nocompose", ["NoFalseCycle", "ResolvedCompletes", "temporal"])],
                known_mc=[], extra_trace=[]),
}

C05_Q = ["pair", "chain3p", "fanin1", "fanout", "fanoutshared", "fanout3shared", "diamondp", "ring2", "ringbreak"]
C05_T = C05_Q + ["chain3t", "fanin2", "diamondt", "pullchain2", "ring3", "pullring", "trigger", "staticin", "finisher", "pairL"]

VACUITY = {"C04": ["NeverCirc"], "C03": ["NeverDone", "NeverFinishedComp"], "C01": [], "C02": []}
VACUITY_FAMS = {"NeverCirc": ["ring2"], "NeverFinishedComp": ["finisher"]}


def check(pid, tier):
    if pid == "C05":
        return check_c05(pid, tier)
    plan = PLAN[pid]
    ev = Evidence(pid, tier)
    fams = plan[tier]
    rng = random.Random(seed())
    out_lines = []
    violations = []
    machinery = []

    # (1) exhaustive model checking, intended design
    r = mc(fams, "intended", "impl", plan["inv"], plan["prop"], liveness=plan["live"])
    ev.add_mc("Sched/intended/" + "+".join(fams), r,
              {"families": fams, "impl": "intended", "invariants": plan["inv"], "properties": plan["prop"]})
    if not r.ok:
        for v in r.violated:
            p = SCHED_INV.get(v, pid)
            path = save_replay(pid, {"kind": "tlc-counterexample", "violated": v, "families": fams,
                                     "output": r.out[-6000:]})
            violations.append((p, f"design-level: {v} violated in Sched.tla", path))
    # vacuity: the terminal kinds the property talks about must be reachable
    for inv in VACUITY.get(pid, []):
        rv = mc(VACUITY_FAMS.get(inv, fams[:2]), "intended", "impl", [inv], [])
        if rv.ok:
            machinery.append(f"vacuity guard {inv} was not violated")
    # (2) negative controls
    for nf, impl, expect in plan["neg"]:
        rn = mc(nf, impl, "impl", plan["inv"], plan["prop"], liveness=plan["live"])
        ev.cov["runs"].append({"kind": "negative-control", "families": nf, "impl": impl,
                               "violated": rn.violated, **rn.summary()})
        if rn.ok or not set(rn.violated) & set(expect):
            machinery.append(f"negative control {impl} on {nf} produced no counterexample ({rn.violated})")
    for nf, impl, expect, kid in plan["known_mc"]:
        rn = mc(nf, impl, "impl", plan["inv"], plan["prop"], liveness=False)
        ev.cov["runs"].append({"kind": "known-finding-design-level", "families": nf,
                               "violated": rn.violated, **rn.summary()})
        if not rn.ok and set(rn.violated) & set(expect):
            out_lines.append(f"KNOWN-FINDING: property={pid} {kid}: design-level counterexample "
                             f"({', '.join(rn.violated)}) in family {nf[0]}")
            ev.known.append(kid + ":design")
        else:
            machinery.append(f"known finding {kid} no longer has a design-level counterexample")

    # (3) the enumerated configurations on the real code
    cfgs = []
    for f in fams + plan["extra_trace"]:
        got = tlc.emit("SchedEmit", {"FAMILY": f})
        cap = 4000 if tier == "quick" else 60000
        if len(got) > cap:
            got = rng.sample(got, cap)
            ev.cov["exhaustive"] = False
        cfgs += got
    if tier == "thorough":
        cfgs += random_cfgs(4000, rng)
        ev.cov["exhaustive"] = False
    # the same configurations on other time grids: one tick = 1.5 s / 1 microsecond instead of one day
    sub = rng.sample(cfgs, min(len(cfgs), 600 if tier == "quick" else 6000))
    cfgs = cfgs + [dict(c, tick=[3, 2] if k % 2 else [1, 1000000]) for k, c in enumerate(sub)]
    traces = run_configs([(c, None) for c in cfgs])
    herr = [t for t in traces if "harness_error" in t]
    if herr:
        machinery.append(f"{len(herr)} harness errors, first: {herr[0]['harness_error']}")
        traces = [t for t in traces if "harness_error" not in t]
    acc, tot, bad, gen, _ = tlc.validate("Sched_Trace", traces)
    ev.add_traces("Sched_Trace/" + "+".join(fams + plan["extra_trace"]), acc, tot, gen)
    nontrivial = set()
    for t in traces:
        if any(e["log"] or e["nlog"] for e in t["ev"]):
            nontrivial.add(jdump(t["cfg"]))
    ev.cov["distinct_nontrivial"] = len(nontrivial)
    ev.cov["rule"] = ("configurations enumerated by TLC from SchedFamilies.tla, each executed on the "
                      "real code; non-trivial = at least one update pulled from or notified "
                      "a source output / buffering adapter")
    for t in traces[:3]:
        ev.sample({"cfg": t["cfg"], "events": t["ev"][:3], "end": t["end"]["out"]})
    other = {}
    for k, verdict in sorted(bad.items()):
        t = traces[k]
        p = sched_property(verdict, t["cfg"])
        base = verdict.split("@")[0]
        zone = t["cfg"].get("zone", "dag")
        # C04: a delay-resolved cycle must complete "and the scheduling guarantees hold throughout"
        if pid == "C04" and zone == "resolved" and base in ("served", "avail", "choice", "update-raised", "served-notify", "served-as-modelled",
                                                        "update-raised-as-modelled"):
            p = pid
        # C03: a valid (acyclic) composition must run to the end: a cycle report there is also a
        # termination failure
        if pid == "C03" and zone in ("dag", "resolved") and base in ("false-cycle", "false-cycle-zone"):
            p = pid
        # C03: "for every valid composition run(end_time) returns": an error out of the connect phase of a
        # valid composition is also a failure to run to the end
        if pid == "C03" and zone in ("dag", "resolved") and base == "connect-error":
            p = pid
        # C01: a component updated while it waits for itself was updated before its input data exists
        if pid == "C01" and base == "cycle-not-reported":
            p = pid
        # C02: "the time for which the driver checks availability on a link equals the time that is
        # actually requested": an update whose announced pull is not available was checked for another time
        if pid == "C02" and base == "avail":
            p = pid
        # ... and a request that reaches the source for another time than the composed shift of the link's
        # delay adapters is a time the driver did not check (e.g. one delay adapter shared by two readers)
        if pid == "C02" and base in ("delay-shift", "delay-shift-notify"):
            p = pid
        if p != pid:
            other[p] = other.get(p, 0) + 1
            continue
        kf = match_known(pid, verdict, trace_features(t, verdict))
        if kf:
            if kf["id"] not in ev.known:
                ev.known.append(kf["id"])
                out_lines.append(f"KNOWN-FINDING: property={pid} {kf['id']}: {kf['what']}")
            continue
        path = save_replay(pid, {"kind": "sched-trace", "verdict": verdict, "trace": t}) if len(violations) < 10 else "(not saved)"
        violations.append((pid, f"trace rejected: {verdict} outcome={t['end']['out']} "
                                f"features={features(t['cfg'])}", path))
    ev.cov["other_property_rejections"] = other
    if pid == "C04":
        connect_cycles(pid, tier, ev, rng, violations, machinery)
    if pid == "C03":
        multiport_runs(pid, tier, ev, rng, violations, machinery)
    return finish(pid, ev, out_lines, violations, machinery)


def multiport_runs(pid, tier, ev, rng, violations, machinery):
    """C03 for compositions whose connect phase needs several rounds: components with several inputs and
    outputs, metadata derived from the other slot of a port, data published only after the initial pulls
    (shapes of Connect2.tla, families lanes and feedback).  Where the least fixpoint of the exchange
    dependencies is complete the composition is valid: run() must come back, every life cycle is walked once,
    times increase, the end time is reached, nothing is updated afterwards, every pull is served
    (Run2_Trace.tla)."""
    from .fn_engine import run_cases
    cases = []
    for fam, cap in (("lanes", 1200 if tier == "quick" else None), ("feedback", 2400 if tier == "quick" else None)):
        got = tlc.emit("Connect2Emit", {"FAMILY": fam})
        if cap and len(got) > cap:
            got = rng.sample(got, cap)
            ev.cov["exhaustive"] = False
        cases += [dict(c, E=rng.choice([2, 3])) for c in got]
    traces = run_cases("connect2_run", "run_full", cases)
    herr = [t for t in traces if "harness_error" in t]
    if herr:
        machinery.append(f"{len(herr)} harness errors (multi-port runs), first: {herr[0]['harness_error']}")
        traces = [t for t in traces if "harness_error" not in t]
    acc, tot, bad, gen, _ = tlc.validate("Run2_Trace", traces)
    ev.add_traces("Run2_Trace/lanes+feedback", acc, tot, gen)
    done = [t for t in traces if t["end"]["out"] == "ok"]
    ev.cov["multiport_runs"] = {"completed": len(done), "circular_at_connect": len(traces) - len(done),
                                "updates": sum(len(t["upd"]) for t in done)}
    ev.cov["distinct_nontrivial"] += len(done)
    if not done or len(done) == len(traces):
        machinery.append("vacuous: multi-port shapes must both run and stall")
    for k, verdict in sorted(bad.items()):
        if verdict.split("@")[0] == "cycle-not-reported":
            continue                                  # C04 / C06
        t = traces[k]
        path = save_replay(pid, {"kind": "run2-trace", "verdict": verdict, "trace": t}) if len(violations) < 10 else "(not saved)"
        violations.append((pid, f"multi-port composition: {verdict} end={t['end']} fam={t['cfg'].get('fam')} order={t['cfg']['order']}", path))


def connect_cycles(pid, tier, ev, rng, violations, machinery):
    """C04 also speaks about connect(): a cycle in the initial exchange of metadata / data that can not be
    resolved must end in the circular-coupling error - never in another error or a connect loop that does
    not terminate.  The shapes whose least fixpoint is incomplete (ConnectOps.StuckSet # {}) are enumerated
    by TLC and connected with real components; the trace monitors give the verdict."""
    from .fn_engine import run_cases
    todo = [("ConnectStuckEmit", {"FAMILY": "ring2"}, "connect_run", "Connect_Trace", 500 if tier == "quick" else 6000),
            ("Connect2Emit", {"FAMILY": "halfstuck"}, "connect2_run", "Connect2_Trace", 500 if tier == "quick" else None)]
    for emit_mod, env, runner, monitor, cap in todo:
        cases = tlc.emit(emit_mod, env)
        if cap and len(cases) > cap:
            cases = rng.sample(cases, cap)
        traces = [t for t in run_cases(runner, "run_case", cases) if "harness_error" not in t]
        acc, tot, bad, gen, _ = tlc.validate(monitor, traces)
        ev.add_traces(f"{monitor}/unresolvable initial exchange", acc, tot, gen)
        nstall = sum(1 for t in traces if t["end"]["out"] == "stall")
        if nstall == 0:
            machinery.append(f"vacuous: no stalled connect phase among the {emit_mod} shapes")
        for k, verdict in sorted(bad.items()):
            t = traces[k]
            # only what C04 states: the outcome class of an unresolvable shape (hang guard = RuntimeError)
            if t["end"]["out"] in ("ok", "stall"):
                continue
            path = save_replay(pid, {"kind": "connect-cycle", "verdict": verdict, "trace": t}) if len(violations) < 10 else "(not saved)"
            violations.append((pid, f"unresolvable initial exchange not reported as circular coupling: {verdict} end={t['end']}", path))


def has_topush(cfg):
    return any(a["k"] == "topush" for c in cfg["comps"] for lk in c["ins"] for a in lk["chain"])


def outcome_key(t):
    """What C05 requires to be identical across listing / linking orders.  On an error
    outcome only the class is compared (how far the run got before the driver noticed the
    cycle depends on tie-breaks and is not an outcome of the statement)."""
    out = t["end"]["out"]
    if out != "done":
        return jdump({"out": out})
    return jdump({"out": out, "time": t["end"]["time"], "series": t["end"]["series"],
                  "infos": t["end"]["infos"]})


def check_c05(pid, tier):
    ev = Evidence(pid, tier)
    rng = random.Random(seed())
    fams = C05_Q if tier == "quick" else C05_T
    out_lines, violations, machinery = [], [], []
    # design level: every admissible update order of the property-level scheduler ends
    # like the as-coded driver (outcome class, final times, everything every consumer got)
    r = mc(fams if tier == "quick" else fams[:-1], "intended", "abs", ["NoRefusedPull", "OrderIndependent"], [])
    ev.add_mc("Sched/abs/" + "+".join(fams), r, {"families": fams, "mode": "abs",
                                                  "invariants": ["NoRefusedPull", "OrderIndependent"]})
    if not r.ok:
        path = save_replay(pid, {"kind": "tlc-counterexample", "violated": r.violated, "output": r.out[-6000:]})
        violations.append((pid, f"design-level: {r.violated} violated in Sched.tla (mode abs)", path))
    # negative control: with a push-time-dependent adapter the outcome does depend on order
    rn = tlc.model_check("Sched", MC_TMPL.format(spec="INIT InitAny\nNEXT Next", fams='"pair"',
                         impl="intended", mode="abs", props="INVARIANT OrderIndependent"), timeout=1500)
    ev.cov["runs"].append({"kind": "negative-control", "what": "DelayToPush admitted", "violated": rn.violated,
                           **rn.summary()})
    if rn.ok:
        machinery.append("negative control (DelayToPush in abs mode) produced no counterexample")
    # implementation level: all listing orders x link creation orders
    base = {}
    for f in fams:
        for c in tlc.emit("SchedEmit", {"FAMILY": f}):
            if has_topush(c):
                continue
            k = dict(c)
            k["order"] = list(range(1, len(c["comps"]) + 1))
            base.setdefault(jdump(k), k)
    cfgs = list(base.values())
    cap = 350 if tier == "quick" else 4000
    if len(cfgs) > cap:
        cfgs = rng.sample(cfgs, cap)
        ev.cov["exhaustive"] = False
    # always included: a fast reader behind NextTime next to slower readers that drag the producer ahead (what the
    # fast reader receives must not depend on how far ahead the producer is, i.e. on the listing order)
    sampled = {jdump(c) for c in cfgs}
    nxt = [k for k in base.values() if k.get("fam") == "fanout3shared" and jdump(k) not in sampled
           and any(a["b"] == "next" for c in k["comps"] for lk in c["ins"] for a in lk["chain"])]
    cfgs += nxt if tier != "quick" else rng.sample(nxt, min(len(nxt), 40))
    # small families that are always run completely (every listing order)
    for f, n in (("fanoutsum", None), ("finisher", 40 if tier == "quick" else None)):
        got = []
        for c in tlc.emit("SchedEmit", {"FAMILY": f}):
            k = dict(c)
            k["order"] = list(range(1, len(c["comps"]) + 1))
            if jdump(k) not in base:
                base[jdump(k)] = k
                got.append(k)
        cfgs += got if n is None or len(got) <= n else rng.sample(got, n)
    jobs, group = [], []
    for gi, c in enumerate(cfgs):
        n = len(c["comps"])
        perms = list(itertools.permutations(range(1, n + 1)))
        if len(perms) > 24:
            perms = rng.sample(perms, 24)
        nl = sum(len(x["ins"]) for x in c["comps"])
        lperms = list(itertools.permutations(range(nl)))
        if len(lperms) > 4:
            lperms = [lperms[0], lperms[-1]] + rng.sample(lperms[1:-1], 2)
        for pi, perm in enumerate(perms):
            cc = dict(c)
            cc["order"] = list(perm)
            jobs.append((cc, lperms[pi % len(lperms)]))
            group.append(gi)
    traces = run_configs(jobs)
    herr = [t for t in traces if "harness_error" in t]
    if herr:
        machinery.append(f"{len(herr)} harness errors, first: {herr[0]['harness_error']}")
    keep = [(g, t) for g, t in zip(group, traces) if "harness_error" not in t]
    traces = [t for _, t in keep]
    acc, tot, bad, gen, _ = tlc.validate("Sched_Trace", traces)
    ev.add_traces("Sched_Trace/permutations/" + "+".join(fams), acc, tot, gen)
    for k, verdict in sorted(bad.items()):
        t = traces[k]
        if sched_property(verdict, t["cfg"]) != pid:
            continue
        path = save_replay(pid, {"kind": "sched-trace", "verdict": verdict, "trace": t}) if len(violations) < 10 else "(not saved)"
        violations.append((pid, f"trace rejected: {verdict}", path))
    groups = {}
    for (g, t) in keep:
        groups.setdefault(g, []).append(t)
    multi = 0
    for g, ts in groups.items():
        keys = {}
        for t in ts:
            keys.setdefault(outcome_key(t), t)
        if len(ts) > 1:
            multi += 1
        if len(keys) > 1:
            a, b = list(keys.values())[:2]
            path = save_replay(pid, {"kind": "sched-order", "verdict": "order-dependent@0", "trace": a,
                                     "other": b}) if len(violations) < 10 else "(not saved)"
            violations.append((pid, f"order-dependent outcome: {a['end']['out']} (order {a['cfg']['order']}) vs "
                                    f"{b['end']['out']} (order {b['cfg']['order']})", path))
    ev.cov["distinct_nontrivial"] = multi
    ev.cov["rule"] = ("base configurations (TLC-enumerated, without DelayToPush) each run under all listing "
                      "orders (<= 24) and several link creation orders; non-trivial = configuration run under "
                      "at least two different orders")
    for t in traces[:2]:
        ev.sample({"cfg": t["cfg"], "link_order": t.get("link_order"), "end": t["end"]})
    gridded_order(pid, tier, ev, rng, violations, machinery)
    return finish(pid, ev, out_lines, violations, machinery)


def gridded_order(pid, tier, ev, rng, violations, machinery):
    """Order of the metadata exchange on a gridded output with two consumers of differently laid-out grids
    (Grid.tla link cases): whichever consumer exchanges first, the observed consumer receives the same, and
    correctly located, data (Grid_Trace decides each run; both orders must agree)."""
    from .fn_engine import run_cases
    cases = [c for c in tlc.emit("GridEmit", {"WHAT": "link"})
             if not c.get("st") and not c.get("stk") and c["dst"]["kind"] != "esri"]
    cases = rng.sample(cases, min(len(cases), 700 if tier == "quick" else 8000))
    jobs = [dict(c, prime=o) for c in cases for o in ("first", "second")]
    traces = run_cases("grid_run", "run_case", jobs)
    if any("harness_error" in t for t in traces):
        machinery.append("harness errors in the gridded order cases")
        return
    acc, tot, bad, gen, _ = tlc.validate("Grid_Trace", traces)
    ev.add_traces("Grid_Trace/two consumers, both exchange orders", acc, tot, gen)
    for k, verdict in sorted(bad.items()):
        path = save_replay(pid, {"kind": "grid-case", "verdict": verdict, "trace": traces[k]}) if len(violations) < 10 else "(not saved)"
        violations.append((pid, f"gridded output with two consumers ({traces[k]['case']['prime']}): {verdict}", path))
    for a, b in zip(traces[0::2], traces[1::2]):
        if a["obs"] != b["obs"]:
            path = save_replay(pid, {"kind": "grid-case", "verdict": "order-dependent@1", "trace": a}) if len(violations) < 10 else "(not saved)"
            violations.append((pid, "the data a consumer receives depends on which consumer exchanged its metadata first", path))


def finish(pid, ev, out_lines, violations, machinery):
    ev.violations = len(violations)
    ev.cov["machinery_problems"] = machinery
    ev.write()
    for l in out_lines:
        print(l)
    shown = 0
    for p, what, path in violations:
        if shown < 10:
            print(f"VIOLATION property={p} replay={path}  # {what}")
        shown += 1
    if len(violations) > 10:
        print(f"... {len(violations) - 10} more violations (replays saved)")
    for m in machinery:
        print("MACHINERY-FAILURE:", m)
    if violations:
        return 1
    return 2 if machinery else 0


def replay(pid, path):
    import json
    with open(path) as f:
        rp = json.load(f)
    if rp.get("kind") == "sched-order":
        a = _run_one((rp["trace"]["cfg"], rp["trace"].get("link_order")))
        b = _run_one((rp["other"]["cfg"], rp["other"].get("link_order")))
        if outcome_key(a) != outcome_key(b):
            print(f"VIOLATION property={pid} replay={path}  # order-dependent outcome")
            return 1
        print("replayed pair of orders agrees")
        return 0
    if rp.get("kind") == "grid-case":
        from .fn_engine import replay_fn
        return replay_fn(pid, path, "Grid_Trace", ("grid_run", "run_case"), lambda v, c: pid)
    if rp.get("kind") == "run2-trace":
        from .fn_engine import _run
        t = _run(("connect2_run", "run_full", rp["trace"]["cfg"]))
        _, _, bad, _, _ = tlc.validate("Run2_Trace", [t])
        if bad:
            print(f"VIOLATION property={pid} replay={path}  # {bad[0]}")
            return 1
        print("replayed multi-port run accepted")
        return 0
    if rp.get("kind") == "connect-cycle":
        from .fn_engine import _run
        two = "ports" in rp["trace"]["cfg"]["comps"][0]
        t = _run(("connect2_run" if two else "connect_run", "run_case", rp["trace"]["cfg"]))
        if t["end"]["out"] not in ("ok", "stall"):
            print(f"VIOLATION property={pid} replay={path}  # unresolvable initial exchange ended with {t['end']['out']}")
            return 1
        print("replayed connect phase ended with the circular-coupling report")
        return 0
    if rp.get("kind") != "sched-trace":
        print(rp.get("output", "")[-3000:])
        return 0
    lim = rp.get("limit", -1)
    en = rp["trace"].get("end") or {}
    sl = en.get("slot_limit", -1)
    t = _run_one((rp["trace"]["cfg"], rp["trace"].get("link_order"), None if lim == -1 else lim,
                  None if sl == -1 else sl, en.get("loc", ""), en.get("twin", False)))
    acc, tot, bad, _, _ = tlc.validate("Sched_Trace", [t])
    if bad:
        print(f"VIOLATION property={sched_property(bad[0], t['cfg'])} replay={path}  # {bad[0]}")
        return 1
    print("replayed trace accepted")
    return 0
