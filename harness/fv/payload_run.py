"""Executes one payload case (Payload.tla) on a real Output -> Input link."""
from fractions import Fraction

from .common import day, import_finam

fm = import_finam()
import numpy as np  # noqa: E402

BASE = np.array([[2.0, 4.0, 8.0], [16.0, 32.0, 64.0]])


FIXED_MASK = np.array([[False, True, False], [False, False, True]])


def make_payload(case, grid=None):
    g, f = case["grid"], case["form"]
    if g == "g32r":
        base = BASE.T.copy()
        arr = {"shaped": base, "timeaxis": base[None, ...], "flat": base.ravel(order=grid.order),
               "list": base.tolist()}[f]
    elif g == "g23":
        # a flat array lists the field in the grid's memory order
        arr = {"shaped": BASE.copy(), "timeaxis": BASE.copy()[None, ...],
               "flat": BASE.copy().ravel(order=grid.order),
               "list": BASE.tolist(), "wrongsize": np.arange(5.0) + 1, "wrongshape": BASE.copy().T,
               "scalar": 2.0,
               "masked": np.ma.masked_array(BASE.copy(), mask=[[False, True, False], [False, False, True]])}[f]
    elif g == "nogrid":
        arr = {"scalar": 2.0, "list1": [2.0], "array1": np.array([2.0]), "array2": np.array([2.0, 4.0])}[f]
    else:
        arr = {"vec3": np.array([2.0, 4.0, 8.0]), "vec3time": np.array([[2.0, 4.0, 8.0]]),
               "matrix": np.ones((2, 2))}[f]
    if case["pu"]:
        arr = fm.UNITS.Quantity(np.asarray(arr) if not np.ma.isMaskedArray(arr) else arr, case["pu"])
    return arr


def run_case(case):
    grid = {"g23": fm.UniformGrid((3, 4)), "g32r": fm.UniformGrid((3, 4), axes_reversed=True),
            "nogrid": fm.NoGrid(), "nogrid1": fm.NoGrid(1)}[case["grid"]]
    static = bool(case.get("st"))
    t0 = None if static else day(0)
    out = fm.Output(name="Out", static=static)
    inp = fm.Input(name="In", static=static)
    out >> inp  # pylint: disable=pointless-statement
    inp.ping()
    fixed_mask = FIXED_MASK.T if case["grid"] == "g32r" else FIXED_MASK
    kw = {"mask": fixed_mask} if case.get("om") == "fixed" else {}
    out.push_info(fm.Info(time=t0, grid=grid, units=case["ou"], **kw))
    inp.exchange_info(fm.Info(time=t0, grid=grid, units=case["iu"] or None))
    obs = {"res": "ok", "shape": [], "num": 0, "den": 1, "units": "", "masked": False, "alias": ""}
    payload = make_payload(case, grid)
    try:
        out.push_data(payload, t0)
        data = inp.pull_data(day(0))
        if static:      # every read of a static link delivers the same: observe the second one
            data = inp.pull_data(day(3))
        mag = fm.data.get_magnitude(data)
        obs["shape"] = list(mag.shape)
        obs["masked"] = bool(np.ma.isMaskedArray(mag) and np.ma.getmaskarray(mag).any())
        if case.get("om") == "fixed" and not np.array_equal(np.ma.getmaskarray(mag)[0], fixed_mask):
            obs["masked"] = False       # not exactly the mask of the metadata
        first = float(np.ma.getdata(mag).ravel()[0])
        fr = Fraction(first).limit_denominator(10 ** 6)
        if abs(float(fr) - first) > 1e-9 * max(1.0, abs(first)):
            fr = Fraction(-1)
        temperature = case["ou"] in ("K", "degC")
        if not temperature:
            # every element must be the published field times one common factor (first element is 2)
            if case["grid"] == "g23":
                ref = BASE.ravel()
            elif case["grid"] == "g32r":
                ref = BASE.T.ravel()
            elif case["grid"] == "nogrid":
                ref = np.array([2.0])
            else:
                ref = np.array([2.0, 4.0, 8.0])
            got = np.ma.getdata(mag).ravel()
            keep = ~np.ma.getmaskarray(mag).ravel()      # masked cells carry no value
            if not np.allclose(got[keep], (ref[:got.size] * float(fr) / 2.0)[keep], rtol=1e-9):
                fr = Fraction(-2)       # element order / values not preserved
        obs["num"], obs["den"] = fr.numerator, fr.denominator
        obs["units"] = {"°C": "degC"}.get(f"{fm.data.get_units(data):~}", f"{fm.data.get_units(data):~}")
    except Exception as e:  # pylint: disable=broad-except
        obs["res"] = "err:" + type(e).__name__
    if obs["res"] == "ok":
        # publishing an array that shares memory with the previously published one is refused
        try:
            prev = out.data[-1][1]
            view = fm.data.get_magnitude(prev)[0, ...] if case["grid"] != "nogrid" else fm.data.get_magnitude(prev)
            out.push_data(fm.UNITS.Quantity(view, fm.data.get_units(prev)), day(1))
            obs["alias"] = "ok"
        except Exception as e:  # pylint: disable=broad-except
            obs["alias"] = "err:" + type(e).__name__
    return {"case": case, "obs": obs}
