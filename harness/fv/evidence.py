"""Evidence files and known-findings bookkeeping."""
import json
import os
import time

from .common import VERIF, seed


def load_known():
    p = os.path.join(VERIF, "known_findings.json")
    if not os.path.exists(p):
        return {"findings": [], "fixed": []}
    with open(p) as f:
        return json.load(f)


def match_known(pid, clause, features):
    """A violation is a listed known finding iff property, clause and the configuration's
    structural signature all match one entry of known_findings.json."""
    base = clause.split("@")[0]
    for k in load_known().get("findings", []):
        if k["property"] == pid and base in k["clauses"] and all(f in features for f in k["signature"]):
            return k
    return None


class Evidence:
    def __init__(self, pid, tier):
        self.pid, self.tier = pid, tier
        self.t0 = time.time()
        self.cov = {"states": 0, "transitions": 0, "traces_validated_against_impl": 0,
                    "samples": [], "exhaustive": True, "evaluations": 0, "distinct_nontrivial": 0,
                    "rule": "", "runs": []}
        self.assumptions = []
        self.violations = 0
        self.known = []

    def add_mc(self, name, r, constants=None):
        self.cov["states"] += r.distinct
        self.cov["transitions"] += r.generated
        self.cov["runs"].append({"kind": "tlc-model-check", "name": name, **r.summary(),
                                 "constants": constants or {}})

    def add_traces(self, name, accepted, total, gen):
        self.cov["traces_validated_against_impl"] += total
        self.cov["evaluations"] += total
        self.cov["runs"].append({"kind": "tlc-trace-validation", "name": name, "traces": total,
                                 "accepted": accepted, "monitor_states": gen})

    def sample(self, obj):
        if len(self.cov["samples"]) < 6:
            self.cov["samples"].append(obj)

    def write(self, level="model_checking"):
        d = os.path.join(os.environ.get("VERIF_OUT", VERIF), "evidence")
        os.makedirs(d, exist_ok=True)
        if not self.cov["samples"]:
            self.cov["samples"].append("no case executed")
        ev = {"property_id": self.pid, "tier": self.tier, "seed": seed(), "level": level,
              "coverage": self.cov, "assumptions": self.assumptions,
              "wall_s": round(time.time() - self.t0, 1), "violations": self.violations,
              "known_findings_observed": self.known}
        with open(os.path.join(d, f"{self.pid}.json"), "w") as f:
            json.dump(ev, f, indent=1, sort_keys=True)
        return ev


def save_replay(pid, obj):
    d = os.path.join(os.environ.get("VERIF_OUT", VERIF), "replays", pid)
    os.makedirs(d, exist_ok=True)
    n = len([x for x in os.listdir(d) if x.endswith(".json")])
    p = os.path.join(d, f"{n:04d}.json")
    with open(p, "w") as f:
        json.dump(obj, f, sort_keys=True)
    return p
