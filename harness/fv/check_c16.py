"""C16: regridding (Regrid.tla)."""
from .check_sched import finish
from .evidence import Evidence
from .fn_engine import replay_fn, run_fn

from .regrid_run import prime_variants  # noqa: E402

RUNNER = ("regrid_run", "run_case")


def clause_property(verdict, case):
    return "C16"


def check(pid, tier):
    ev = Evidence(pid, tier)
    out_lines, violations, machinery = [], [], []
    for what, qcap in (("identity", 400), ("nearest", 1500), ("mesh", None), ("linear", 400)):
        traces, _ = run_fn(pid, ev, violations, machinery, "RegridEmit", "Regrid_Trace", RUNNER, clause_property,
                           "regrid-case", emit_env={"WHAT": what}, cap=qcap if tier == "quick" else None,
                           nontrivial=lambda t: t["case"]["c"]["sm"] or t["case"]["c"]["tm"] or t["case"]["c"]["su"] != "struct",
                           derive=prime_variants)
        if what == "linear":
            masked = sum(1 for t in traces if any(t["obs"]["mask"]))
            if masked == 0 or masked == len(traces):
                machinery.append("vacuous: linear cases with and without masked (outside) targets expected")
    ev.cov["rule"] = ("cases enumerated by TLC from Regrid.tla (source / target layouts of uniform, rectilinear and "
                      "ESRI grids, as structured grids, unstructured cells or unstructured points, masks on either "
                      "side, nearest and linear with/without fill), each run through a real RegridNearest / RegridLinear "
                      "adapter on a link; non-trivial = masked or unstructured")
    return finish(pid, ev, out_lines, violations, machinery)


def replay(pid, path):
    return replay_fn(pid, path, "Regrid_Trace", RUNNER, clause_property)
