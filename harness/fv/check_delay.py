"""C13: delay adapters (Delay.tla / Delay_Trace.tla) + the scheduler-side clauses
(delay-shift in Sched_Trace: the time the driver's choice implies is the time requested)."""
from . import check_sched, tlc
from .check_sched import finish, run_configs
from .clauses import sched_property
from .evidence import Evidence, save_replay
from .script_engine import Engine

MC_TMPL = """SPECIFICATION Spec
CONSTANTS MaxLen = {maxlen}
 MaxPub = {maxpub}
 Gaps = {{{gaps}}}
 ChainSet = "{cfgset}"
{extra}
CHECK_DEADLOCK FALSE
"""
INVS = ["AdaptersAsStated", "ToPushAsStated", "FixedDelaysAddUp", "ShiftBounds"]
ENGINE = Engine("Delay", "Delay_Trace", "delay_run", MC_TMPL, INVS, lambda v, c: "C13", "delay-trace")


def P(cfgset, maxlen, maxpub, gaps):
    return dict(cfgset=cfgset, maxlen=maxlen, maxpub=maxpub, gaps=", ".join(map(str, gaps)))


PLAN = {"C13": dict(
    mc={"quick": [P("upto2", 6, 4, (1, 2, 3))], "thorough": [P("upto2", 7, 4, (1, 2, 3)), P("three", 6, 3, (1, 3))]},
    gen={"quick": [(P("one", 5, 3, (1, 3)), None, 3000), (P("two", 10, 5, (1, 2, 3)), 2500, 4000),
                   (P("three", 10, 5, (1, 2, 3)), 1500, 2500)],
         "thorough": [(P("upto2", 5, 3, (1, 3)), None, 150000), (P("three", 12, 6, (1, 2, 3)), 40000, None)]})}


def check(pid, tier):
    ev = Evidence(pid, tier)
    out_lines, violations, machinery = [], [], []
    ENGINE.run(pid, tier, PLAN[pid], ev, violations, machinery)
    # scheduler side: in whole runs the time requested from the source equals the spec's
    # shifted time (and the driver's choices are consistent with it: C01/C02 clauses)
    cfgs = []
    def has_delay(c):
        return any(a["k"] in ("fixed", "topull", "topush") for k in c["comps"] for lk in k["ins"] for a in lk["chain"])
    # (chain3p, pullring: a delay adapter behind a pull-based component that has inputs itself)
    # (pulltwice: one pull-based output read through links with different delays)
    for fam in (["pair", "ring2", "chain3d", "chain3p", "pullring", "pulltwice", "fanoutshared"] if tier == "quick"
                else ["pairL", "pair3", "ring2", "ring3", "ringbreak", "chain3d", "chain3p", "pullring", "pullringtail", "pulltwice", "fanoutshared", "fanout3shared"]):
        got = tlc.emit("SchedEmit", {"FAMILY": fam})
        if fam == "pairL":
            got = [c for c in got if "chained_delays" in check_sched.features(c)]
        elif fam in ("chain3p", "pullring", "pullringtail", "fanoutshared", "fanout3shared"):     # (one delay adapter shared by two readers)
            got = [c for c in got if has_delay(c)]
        cfgs += got
    import random
    from .common import seed
    cap = 3000 if tier == "quick" else 60000
    if len(cfgs) > cap:
        cfgs = random.Random(seed()).sample(cfgs, cap)
        ev.cov["exhaustive"] = False
    rn = check_sched.mc(["pairL"] if tier != "quick" else ["ring2"], "nocompose", "impl", ["NoFalseCycle"], ["OnlyAllowedChoices"])
    ev.cov["runs"].append({"kind": "negative-control", "impl": "nocompose", "violated": rn.violated, **rn.summary()})
    if rn.ok:
        machinery.append("negative control nocompose produced no counterexample")
    traces = [t for t in run_configs([(c, None) for c in cfgs]) if "harness_error" not in t]
    acc, tot, bad, gen, _ = tlc.validate("Sched_Trace", traces)
    ev.add_traces("Sched_Trace/delay families", acc, tot, gen)
    ASSUMED = {"choice", "avail", "served", "served-as-modelled", "false-cycle", "false-cycle-zone"}
    for k, verdict in sorted(bad.items()):
        p = sched_property(verdict, traces[k]["cfg"])
        # "the shifted time is both what the driver assumes when scheduling and what is actually
        # requested": a driver that assumes another time shows up as an unneeded / premature update
        # or a false cycle on links that carry delay adapters
        if verdict.split("@")[0] in ASSUMED and any(
                a["k"] in ("fixed", "topull", "topush") for c in traces[k]["cfg"]["comps"]
                for lk in c["ins"] for a in lk["chain"]):
            p = pid
        if p != pid:
            continue
        path = save_replay(pid, {"kind": "sched-trace", "verdict": verdict, "trace": traces[k]}) if len(violations) < 10 else "(not saved)"
        violations.append((pid, f"trace rejected: {verdict}", path))
    return finish(pid, ev, out_lines, violations, machinery)


def replay(pid, path):
    import json
    with open(path) as f:
        kind = json.load(f).get("kind")
    if kind == "sched-trace":
        return check_sched.replay(pid, path)
    return ENGINE.replay(pid, path)
