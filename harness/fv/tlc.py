"""Running TLC: exhaustive model checking, configuration emission, batch trace validation."""
import json
import os
import re
import shutil
import subprocess
import tempfile
import time

from .common import SPEC

JAR = "/opt/veriftools/tla/tla2tools.jar:/opt/veriftools/tla/CommunityModules-deps.jar"


class TlcFailure(RuntimeError):
    """TLC could not be run / produced no verdict (machinery failure, exit 2)."""


def _java(args, env=None, timeout=3600, heap="8g", cwd=SPEC, deque=False):
    cmd = ["java", "-XX:+UseParallelGC", f"-Xmx{heap}"]
    if deque:
        cmd.append("-Dtlc2.tool.queue.IStateQueue=StateDeque")
    cmd += ["-cp", JAR, "tlc2.TLC"] + args
    e = dict(os.environ)
    e.pop("JAVA_TOOL_OPTIONS", None)
    if env:
        e.update(env)
    t0 = time.time()
    try:
        p = subprocess.run(cmd, cwd=cwd, env=e, stdout=subprocess.PIPE, stderr=subprocess.STDOUT,
                           timeout=timeout, text=True, check=False)
    except subprocess.TimeoutExpired as ex:
        raise TlcFailure(f"TLC timed out after {timeout}s: {' '.join(args)}") from ex
    return p.returncode, p.stdout, time.time() - t0


def _strip(out):
    return "\n".join(l for l in out.splitlines()
                     if not l.startswith(("Parsing file", "Semantic processing", "Linting of")))


class McResult:
    def __init__(self):
        self.ok = False
        self.violated = []        # names of violated invariants / properties
        self.generated = 0
        self.distinct = 0
        self.depth = 0
        self.init_states = 0
        self.wall = 0.0
        self.out = ""
        self.coverage = {}

    def summary(self):
        return {"ok": self.ok, "violated": self.violated, "states_generated": self.generated,
                "distinct_states": self.distinct, "depth": self.depth,
                "initial_states": self.init_states, "wall_s": round(self.wall, 1)}


def model_check(module, cfg_text, workers=16, timeout=3600, env=None, coverage=False,
                simulate=None, depth=None, seed=None, heap="12g"):
    """Run TLC on spec/<module>.tla with the given configuration text."""
    tmp = tempfile.mkdtemp(prefix="fv-tlc-")
    try:
        cfgp = os.path.join(tmp, "mc.cfg")
        with open(cfgp, "w") as f:
            f.write(cfg_text)
        args = ["-workers", str(workers), "-metadir", os.path.join(tmp, "meta"),
                "-noGenerateSpecTE", "-config", cfgp]
        if coverage:
            args += ["-coverage", "1"]
        if simulate:
            args += ["-simulate", simulate]
            if depth:
                args += ["-depth", str(depth)]
        if seed is not None:
            args += ["-seed", str(seed)]
        args.append(os.path.join(SPEC, module + ".tla"))
        rc, out, wall = _java(args, env=env, timeout=timeout, heap=heap)
    finally:
        shutil.rmtree(tmp, ignore_errors=True)
    r = McResult()
    r.out = _strip(out)
    r.wall = wall
    m = re.search(r"(\d[\d,]*) states generated, (\d[\d,]*) distinct states found", r.out)
    if m:
        r.generated = int(m.group(1).replace(",", ""))
        r.distinct = int(m.group(2).replace(",", ""))
    m = re.search(r"depth of the complete state graph search is (\d+)", r.out)
    if m:
        r.depth = int(m.group(1))
    m = re.search(r"Finished computing initial states: (\d+) distinct", r.out)
    if m:
        r.init_states = int(m.group(1))
    for m in re.finditer(r"Error: (?:Invariant|Action property|Temporal properties?) ?(\w+)? ?(?:is|were) violated", r.out):
        r.violated.append(m.group(1) or "temporal")
    if "Temporal properties were violated" in r.out and "temporal" not in r.violated:
        r.violated.append("temporal")
    completed = "Model checking completed. No error has been found." in r.out
    r.ok = completed and not r.violated
    if not completed and not r.violated:
        if simulate and rc in (0, 143, 137):
            r.ok = "Error:" not in r.out
        else:
            raise TlcFailure("TLC neither completed nor reported a violation:\n" + r.out[-3000:])
    if coverage:
        for m in re.finditer(r"<(\w+) line \d+, col \d+ to line \d+, col \d+ of module (\w+)>: (\d+):(\d+)", r.out):
            r.coverage[m.group(1)] = {"distinct": int(m.group(3)), "taken": int(m.group(4))}
    return r


def emit(module, env, timeout=900):
    """Evaluate an emitter module (ASSUME ndJsonSerialize(IOEnv.OUT_FILE, ...)); returns the records."""
    tmp = tempfile.mkdtemp(prefix="fv-emit-")
    try:
        outp = os.path.join(tmp, "out.ndjson")
        e = dict(env)
        e["OUT_FILE"] = outp
        args = ["-workers", "1", "-metadir", os.path.join(tmp, "meta"), "-noGenerateSpecTE",
                "-config", os.path.join(SPEC, module + ".cfg"), os.path.join(SPEC, module + ".tla")]
        rc, out, _ = _java(args, env=e, timeout=timeout)
        if not os.path.exists(outp):
            raise TlcFailure("emitter produced no file:\n" + _strip(out)[-3000:])
        with open(outp) as f:
            return [json.loads(l) for l in f if l.strip()]
    finally:
        shutil.rmtree(tmp, ignore_errors=True)


def validate(module, traces, timeout=3600, heap="12g", extra_env=None):
    """Batch trace validation: returns (accepted, total, {index(0-based): verdict}) for the
    traces TLC rejected.  Every trace gets a verdict or the call raises TlcFailure."""
    if not traces:
        return 0, 0, {}, 0, 0
    tmp = tempfile.mkdtemp(prefix="fv-trace-")
    try:
        tp = os.path.join(tmp, "traces.ndjson")
        with open(tp, "w") as f:
            for t in traces:
                f.write(json.dumps(t, separators=(",", ":")) + "\n")
        env = {"TRACE_FILE": tp}
        if extra_env:
            env.update(extra_env)
        args = ["-workers", "1", "-metadir", os.path.join(tmp, "meta"), "-noGenerateSpecTE",
                "-config", os.path.join(SPEC, module + ".cfg"), os.path.join(SPEC, module + ".tla")]
        rc, out, _ = _java(args, env=env, timeout=timeout, heap=heap)
    finally:
        shutil.rmtree(tmp, ignore_errors=True)
    out = _strip(out)
    ma = re.search(r'<<"ACCEPTED", (\d+)>>', out)
    mt = re.search(r'<<"TOTAL", (\d+)>>', out)
    if not ma or not mt or "Error:" in out:
        raise TlcFailure("trace validation produced no verdicts:\n" + out[-4000:])
    bad = {}
    for m in re.finditer(r'<<"VERDICT", (\d+), "([^"]*)">>', out):
        bad[int(m.group(1)) - 1] = m.group(2)
    accepted, total = int(ma.group(1)), int(mt.group(1))
    if total != len(traces) or accepted + len(bad) != total:
        raise TlcFailure(f"verdict count mismatch: accepted={accepted} rejected={len(bad)} total={total} "
                         f"sent={len(traces)}\n" + out[-2000:])
    mg = re.search(r"(\d[\d,]*) states generated, (\d[\d,]*) distinct states found", out)
    gen = int(mg.group(1).replace(",", "")) if mg else 0
    dis = int(mg.group(2).replace(",", "")) if mg else 0
    return accepted, total, bad, gen, dis
