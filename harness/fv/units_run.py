"""Executes unit cases (Units.tla) on finam's unit helpers and on real links."""
import math
from fractions import Fraction

from .common import day, import_finam

fm = import_finam()
import numpy as np  # noqa: E402

from finam.data.tools import units as funits  # noqa: E402


def smooth_vector(x):
    """exponents of (2, 3, 5, pi) of a positive float (1e-9 relative tolerance), or [] if it
    is not of that form"""
    for kpi in (0, 1, -1):
        y = x / (math.pi ** kpi)
        for digits in (3, 6, 9, 12, 15):
            fr = Fraction(y).limit_denominator(10 ** digits)
            if fr <= 0 or abs(float(fr) - y) > 1e-9 * abs(y):
                continue
            vec = [0, 0, 0, kpi]
            ok = True
            for sign, n in ((1, fr.numerator), (-1, fr.denominator)):
                for i, p in enumerate((2, 3, 5)):
                    while n % p == 0 and n > 1:
                        n //= p
                        vec[i] += sign
                if n != 1:
                    ok = False
            if ok:
                return vec
    return []


def rat(x):
    fr = Fraction(x).limit_denominator(10 ** 6)
    if abs(float(fr) - x) > 1e-9 * max(1.0, abs(x)):
        return [-999999, 1]
    return [fr.numerator, fr.denominator]


def outcome(fn):
    try:
        return "ok", fn()
    except Exception as e:  # pylint: disable=broad-except
        return "err:" + type(e).__name__, None


def run_pair(an, bn):
    obs = {"compat": False, "equiv": False, "fac": [], "temp": [[0, 1]] * 3, "link": "", "linkfac": [],
           "prep": "", "relabel": True, "linksame": []}
    ua, ub = fm.UNITS.Unit(an), fm.UNITS.Unit(bn)
    obs["compat"] = bool(fm.data.tools.compatible_units(ua, ub))
    obs["equiv"] = bool(fm.data.tools.equivalent_units(ua, ub))
    if obs["compat"]:
        x7 = fm.data.tools.to_units(fm.UNITS.Quantity(np.array([0.0, 1.0, 100.0]), ua), ub)
        mags = [float(v) for v in fm.data.get_magnitude(x7)]
        obs["temp"] = [rat(v) for v in mags]
        obs["fac"] = smooth_vector(mags[1]) if mags[0] == 0.0 and mags[1] > 0 else []
    # data crossing a link: output declares units a, input asks for units b
    out, inp = fm.Output(name="Out"), fm.Input(name="In")
    out >> inp  # pylint: disable=pointless-statement
    inp.ping()

    def link():
        out.push_info(fm.Info(time=day(0), grid=fm.NoGrid(), units=an))
        inp.exchange_info(fm.Info(time=day(0), grid=fm.NoGrid(), units=bn))
        out.push_data(np.array([1.0]), day(0))
        got = inp.pull_data(day(0))
        return float(fm.data.get_magnitude(got)[0]), fm.data.get_units(got)
    res, val = outcome(link)
    obs["link"] = res
    if res == "ok":
        obs["linkfac"] = smooth_vector(val[0]) if val[0] > 0 else []
        obs["relabel"] = bool(val[1] == ub)
        if obs["temp"][1] != rat(val[0]):
            obs["linkfac"] = []
        elif not obs["fac"]:
            obs["linkfac"] = []          # temperatures: compared through temp
    # ... the same value must arrive however the link is used: a static link read twice, an
    # integer-typed payload
    if res == "ok" and obs["compat"]:
        ref = mags[1]

        def variant(static, payload):
            o, i = fm.Output(name="Out", static=static), fm.Input(name="In", static=static)
            o >> i  # pylint: disable=pointless-statement
            i.ping()
            t0 = None if static else day(0)
            o.push_info(fm.Info(time=t0, grid=fm.NoGrid(), units=an))
            i.exchange_info(fm.Info(time=t0, grid=fm.NoGrid(), units=bn))
            o.push_data(payload, t0)
            got = i.pull_data(day(0))
            if static:
                got = i.pull_data(day(2))
            return float(fm.data.get_magnitude(got)[0])
        for static, payload in ((True, np.array([1.0])), (False, np.array([1])), (True, np.array([1]))):
            r3, v3 = outcome(lambda s=static, p=payload: variant(s, p))
            obs["linksame"].append(bool(r3 == "ok" and abs(v3 - ref) <= 1e-12 * max(1.0, abs(ref))))

        # ... and through adapters that leave the quantity alone: pass-through, scalar -> grid, grid -> scalar
        def via(kind):
            grid = fm.UniformGrid((3, 2))
            ada = {"scale": lambda: fm.adapters.Scale(1.0), "v2g": lambda: fm.adapters.ValueToGrid(grid),
                   "g2v": lambda: fm.adapters.GridToValue(np.mean)}[kind]()
            gs = grid if kind == "g2v" else fm.NoGrid()
            gt = grid if kind == "v2g" else fm.NoGrid()
            o, i = fm.Output(name="Out"), fm.Input(name="In")
            o >> ada >> i  # pylint: disable=expression-not-assigned
            i.ping()
            o.push_info(fm.Info(time=day(0), grid=gs, units=an))
            i.exchange_info(fm.Info(time=day(0), grid=gt, units=bn))
            o.push_data(np.full((2, 1), 1.0) if kind == "g2v" else np.array(1.0), day(0))
            got = i.pull_data(day(0))
            return float(np.asarray(fm.data.get_magnitude(got)).ravel()[0])
        for kind in ("scale", "v2g", "g2v"):
            r3, v3 = outcome(lambda k=kind: via(k))
            obs["linksame"].append(bool(r3 == "ok" and abs(v3 - ref) <= 1e-12 * max(1.0, abs(ref))))
        # ... and through a component that relays plain numbers: its input declares units b, its output takes the
        # metadata of that input (transfer rule FromInput); a consumer in units a gets the published 1 back
        r3, v3 = outcome(lambda: relay_roundtrip(an, bn))
        obs["linksame"].append(bool(r3 == "ok" and abs(v3 - 1.0) <= 1e-9))
    # publishing a quantity given in units a on an output that declares units b
    res, _ = outcome(lambda: fm.data.prepare(fm.UNITS.Quantity(np.array([1.0]), ua),
                                             fm.Info(time=day(0), grid=fm.NoGrid(), units=bn)))
    obs["prep"] = res
    # ... also when the output's metadata carries a fixed mask (the data is wrapped first)
    if res == "ok" and obs["fac"]:
        grid = fm.UniformGrid((3, 2))
        info = fm.Info(time=day(0), grid=grid, units=bn, mask=np.array([[False], [True]]))
        r2, val = outcome(lambda: fm.data.prepare(fm.UNITS.Quantity(np.array([[1.0], [1.0]]), ua), info))
        if r2 != "ok":
            obs["prep"] = r2
        else:
            got = float(np.ma.getdata(fm.data.get_magnitude(val))[0, 0, 0])
            if smooth_vector(got) != obs["fac"]:
                obs["linkfac"] = []
    return obs


class _Relay(fm.TimeComponent):
    def __init__(self, units):
        super().__init__()
        self._units = units
        self.time = day(0)

    def _next_time(self):
        return self.time + (day(1) - day(0))

    def _initialize(self):
        self.inputs.add(name="In", time=self.time, grid=fm.NoGrid(), units=self._units)
        self.outputs.add(name="Out")
        self.create_connector(pull_data=["In"], out_info_rules={"Out": [fm.tools.FromInput("In")]})

    def _connect(self, start_time):
        push = {}
        got = self.connector.in_data["In"]
        if got is not None and not self.connector.data_pushed["Out"]:
            push["Out"] = float(np.asarray(fm.data.get_magnitude(got)).ravel()[0])      # a plain number
        self.try_connect(start_time, push_data=push)

    def _validate(self):
        pass

    def _update(self):
        pass

    def _finalize(self):
        pass


def relay_roundtrip(an, bn):
    import shutil
    import tempfile
    src = fm.components.CallbackGenerator(
        {"Out": (lambda t: 1.0, fm.Info(time=None, grid=fm.NoGrid(), units=an))}, start=day(0), step=day(1) - day(0))
    relay = _Relay(bn)
    sink = fm.components.DebugConsumer({"In": fm.Info(time=None, grid=fm.NoGrid(), units=an)}, start=day(0),
                                       step=day(1) - day(0))
    memdir = tempfile.mkdtemp(prefix="fv-mem-")
    try:
        comp = fm.Composition([src, relay, sink], print_log=False, slot_memory_location=memdir)
        src.outputs["Out"] >> relay.inputs["In"]
        relay.outputs["Out"] >> sink.inputs["In"]
        comp.connect(day(0))
        return float(np.asarray(fm.data.get_magnitude(sink.data["In"])).ravel()[0])
    finally:
        shutil.rmtree(memdir, ignore_errors=True)


def run_case(case):
    funits.clear_units_cache()
    if case["what"] == "pair":
        return {"case": case, "obs": run_pair(case["an"], case["bn"])}
    names = case["names"]
    ans = []
    for (i, j) in case["qs"]:
        a, b = fm.UNITS.Unit(names[i - 1]), fm.UNITS.Unit(names[j - 1])
        # equivalent first on odd positions, compatible first on even ones: both fill the same memo
        if len(ans) % 2:
            e = bool(fm.data.tools.equivalent_units(a, b))
            c = bool(fm.data.tools.compatible_units(a, b))
        else:
            c = bool(fm.data.tools.compatible_units(a, b))
            e = bool(fm.data.tools.equivalent_units(a, b))
        ans.append([c, e])
    return {"case": {"what": "seq", "qs": case["qs"]}, "obs": {"ans": ans}}
