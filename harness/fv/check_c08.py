"""C08: data crossing a link (nearest publication / range refusal: OutBuf engine; payload
normal forms, unit conversion, shape, mask, aliasing: Payload.tla)."""
import json

from . import check_outbuf
from .check_sched import finish
from .evidence import Evidence
from .fn_engine import replay_fn, run_fn

RUNNER = ("payload_run", "run_case")


def clause_property(verdict, case):
    return "C08"


def check(pid, tier):
    ev = Evidence(pid, tier)
    out_lines, violations, machinery = [], [], []
    check_outbuf.run_engine(pid, tier, ev, violations, machinery)
    run_fn(pid, ev, violations, machinery, "PayloadEmit", "Payload_Trace", RUNNER, clause_property,
           "payload-case", nontrivial=lambda t: t["obs"]["res"] == "ok")
    ev.cov["rule"] += "; payload part: every case of Payload.tla, non-trivial = accepted payload"
    # "... numerically the published data ... with the consumer grid's data shape and the mask": links between two
    # layouts of one geometry (Grid.tla link cases, also cast grids and a second consumer), located values
    from .check_grid import link_variants
    run_fn(pid, ev, violations, machinery, "GridEmit", "Grid_Trace", ("grid_run", "run_case"),
           lambda verdict, case: "C08" if verdict.split("@")[0] in ("transform-located", "transform-shape", "transform-mask",
                                                                    "grid-conversion-raised") else "C15",
           "grid-case", emit_env={"WHAT": "link"}, cap=1200 if tier == "quick" else 20000,
           nontrivial=lambda t: t["obs"].get("res") == "ok", derive=link_variants)
    return finish(pid, ev, out_lines, violations, machinery)


def replay(pid, path):
    with open(path) as f:
        kind = json.load(f).get("kind")
    if kind == "payload-case":
        return replay_fn(pid, path, "Payload_Trace", RUNNER, clause_property)
    if kind == "grid-case":
        return replay_fn(pid, path, "Grid_Trace", ("grid_run", "run_case"), clause_property)
    return check_outbuf.replay(pid, path)
