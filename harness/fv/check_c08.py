"""C08: data crossing a link (nearest publication / range refusal: OutBuf engine; payload
normal forms, unit conversion, shape, mask, aliasing: Payload.tla)."""
import json

from . import check_outbuf
from .check_sched import finish
from .evidence import Evidence
from .fn_engine import replay_fn, run_fn

RUNNER = ("payload_run", "run_case")


def clause_property(verdict, case):
    return "C08"


def check(pid, tier):
    ev = Evidence(pid, tier)
    out_lines, violations, machinery = [], [], []
    check_outbuf.run_engine(pid, tier, ev, violations, machinery)
    run_fn(pid, ev, violations, machinery, "PayloadEmit", "Payload_Trace", RUNNER, clause_property,
           "payload-case", nontrivial=lambda t: t["obs"]["res"] == "ok")
    ev.cov["rule"] += "; payload part: every case of Payload.tla, non-trivial = accepted payload"
    return finish(pid, ev, out_lines, violations, machinery)


def replay(pid, path):
    with open(path) as f:
        kind = json.load(f).get("kind")
    if kind == "payload-case":
        return replay_fn(pid, path, "Payload_Trace", RUNNER, clause_property)
    return check_outbuf.replay(pid, path)
