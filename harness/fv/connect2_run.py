"""Runs the connect phase of multi-port dependency shapes (Connect2.tla) with real finam
components and records every Component.connect call."""
import re
import shutil
import tempfile

from .common import day, import_finam, ticks

fm = import_finam()
import numpy as np  # noqa: E402

from finam.interfaces import ComponentStatus  # noqa: E402
from finam.tools.connect_helper import FromInput, FromOutput  # noqa: E402

ST = {ComponentStatus.INITIALIZED: "init", ComponentStatus.CONNECTING: "connecting",
      ComponentStatus.CONNECTING_IDLE: "idle", ComponentStatus.CONNECTED: "connected"}


class HShape2(fm.TimeComponent):
    def __init__(self, idx, k, events):
        super().__init__()
        self._name = f"c{idx}"
        self.idx, self.k, self.events = idx, k, events
        self.ports = k["ports"]
        self._time = day(k["off"])
        self.life, self.upd = [], None      # call history; upd = shared list of update records (run_full)

    def _next_time(self):
        return self.time + (day(1) - day(0))

    def _info(self, static=False):
        return fm.Info(time=None if static else self.time, grid=fm.NoGrid(), units="m")

    def _initialize(self):
        self.life.append("I")
        in_rules, out_rules, pulls = {}, {}, []
        for p, pt in enumerate(self.ports, start=1):
            st = bool(pt.get("st"))
            if pt["hasin"]:
                self.inputs.add(name=f"In{p}", static=st, info=self._info(st) if pt["inown"] else None)
                if not pt["inown"]:
                    in_rules[f"In{p}"] = [FromOutput(f"Out{p}")]
                if pt["pull"]:
                    pulls.append(f"In{p}")
            if pt["hasout"]:
                if pt["outown"]:
                    self.outputs.add(name=f"Out{p}", static=st, info=self._info(st))
                else:
                    self.outputs.add(name=f"Out{p}", static=st)
                    out_rules[f"Out{p}"] = [FromInput(f"In{p}")]
        self.create_connector(pull_data=pulls, in_info_rules=in_rules or None, out_info_rules=out_rules or None)

    def _cond(self, p, pt):
        con = self.connector
        if pt["data"] == "imm":
            return True
        if pt["data"] == "pulled":
            return con.all_data_pulled
        return (not pt["hasin"]) or con.in_infos[f"In{p}"] is not None

    def _connect(self, start_time):
        self.life.append("C")
        push = {}
        for p, pt in enumerate(self.ports, start=1):
            if pt["hasout"] and not self.connector.data_pushed[f"Out{p}"] and self._cond(p, pt):
                push[f"Out{p}"] = float(1000 * self.idx + 100 * p + self.k["off"])
        self.try_connect(start_time, push_data=push)

    def _validate(self):
        self.life.append("V")

    def _update(self):
        self.life.append("U")
        new = self._next_time()
        if self.upd is None:
            self._time = new
            return
        rec = {"c": self.idx, "t": ticks(new), "toks": [], "err": ""}
        self.upd.append(rec)
        try:
            for p, pt in enumerate(self.ports, start=1):
                tok = -1
                if pt["hasin"]:
                    d = self.inputs[f"In{p}"].pull_data(new)
                    tok = int(round(float(np.asarray(fm.data.get_magnitude(d)).flat[0])))
                rec["toks"].append(tok)
            self._time = new
            for p, pt in enumerate(self.ports, start=1):
                if pt["hasout"] and not pt.get("st"):
                    self.outputs[f"Out{p}"].push_data(float(1000 * self.idx + 100 * p + ticks(new)), new)
        except Exception as e:  # pylint: disable=broad-except
            rec["err"] = type(e).__name__
            raise

    def _finalize(self):
        self.life.append("F")

    def record(self):
        con = self.connector
        fl, pubs, pvals, toks = [], [], [], []
        for p, pt in enumerate(self.ports, start=1):
            hi, ho = pt["hasin"], pt["hasout"]
            fl.append([bool(hi and con.in_infos[f"In{p}"] is not None),
                       bool(hi and pt["pull"] and con.in_data[f"In{p}"] is not None),
                       bool(ho and con.infos_pushed[f"Out{p}"]),
                       bool(ho and con.out_infos[f"Out{p}"] is not None),
                       bool(ho and con.data_pushed[f"Out{p}"])])
            data = self.outputs[f"Out{p}"].data if ho else []
            pubs.append([ticks(t) for t, _ in data])
            pvals.append([int(round(float(np.asarray(fm.data.get_magnitude(d)).flat[0]))) for _, d in data])
            tok = -1
            if hi and pt["pull"] and con.in_data[f"In{p}"] is not None:
                tok = int(round(float(np.asarray(fm.data.get_magnitude(con.in_data[f"In{p}"])).flat[0])))
            toks.append(tok)
        self.events.append({"c": self.idx, "st": ST.get(self.status, str(self.status)), "fl": fl,
                            "pubs": pubs, "pvals": pvals, "toks": toks})


def _link(out, inp, pt):
    if pt.get("dly"):
        out >> fm.adapters.DelayFixed(delay=pt["dly"] * (day(1) - day(0))) >> inp  # pylint: disable=expression-not-assigned
    else:
        out >> inp  # pylint: disable=pointless-statement


def run_case(cfg):
    events = []
    comps = [HShape2(i, k, events) for i, k in enumerate(cfg["comps"], start=1)]
    memdir = tempfile.mkdtemp(prefix="fv-mem-")
    end = {"out": "ok", "unconnected": []}
    try:
        composition = fm.Composition([comps[i - 1] for i in cfg["order"]], print_log=False,
                                     slot_memory_location=memdir)
        for c in comps:
            for p, pt in enumerate(c.ports, start=1):
                if pt["hasin"]:
                    _link(comps[pt["src"] - 1].outputs[f"Out{pt['sport']}"], c.inputs[f"In{p}"], pt)
            orig = c.connect

            def connect(start_time, c=c, orig=orig):
                if len(events) > 400:
                    raise RuntimeError("connect does not terminate")
                try:
                    return orig(start_time)
                finally:
                    c.record()

            c.connect = connect
        try:
            composition.connect(day(0))
        except fm.errors.FinamCircularCouplingError as e:
            end["out"] = "stall"
            m = re.search(r"Unconnected components: \[(.*)\]", str(e))
            end["unconnected"] = [int(x.strip()[1:]) for x in m.group(1).split(",") if x.strip()] if m else []
        except Exception as e:  # pylint: disable=broad-except
            end["out"] = "err:" + type(e).__name__
    finally:
        shutil.rmtree(memdir, ignore_errors=True)
    return {"case": cfg, "cfg": cfg, "ev": events, "end": end}


def run_full(cfg):
    """connect() and run(end) of a multi-port shape: call histories, every update with what it pulled."""
    upd = []
    comps = [HShape2(i, k, []) for i, k in enumerate(cfg["comps"], start=1)]
    for c in comps:
        c.upd = upd
    memdir = tempfile.mkdtemp(prefix="fv-mem-")
    end = {"out": "ok", "times": [], "status": []}
    E = cfg.get("E", 3)
    try:
        composition = fm.Composition([comps[i - 1] for i in cfg["order"]], print_log=False,
                                     slot_memory_location=memdir)
        for c in comps:
            for p, pt in enumerate(c.ports, start=1):
                if pt["hasin"]:
                    _link(comps[pt["src"] - 1].outputs[f"Out{pt['sport']}"], c.inputs[f"In{p}"], pt)
        try:
            composition.run(start_time=day(0), end_time=day(E))
        except Exception as e:  # pylint: disable=broad-except
            end["out"] = "err:" + type(e).__name__
        end["times"] = [ticks(c.time) for c in comps]
        end["status"] = [str(c.status).rsplit(".", 1)[-1] for c in comps]
    finally:
        shutil.rmtree(memdir, ignore_errors=True)
    return {"case": cfg, "cfg": cfg, "E": E, "life": [c.life for c in comps], "upd": upd, "end": end}
