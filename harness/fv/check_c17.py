"""C17: units (Units.tla)."""
from .check_sched import finish
from .evidence import Evidence
from .fn_engine import replay_fn, run_fn

RUNNER = ("units_run", "run_case")


def clause_property(verdict, case):
    return "C17"


def check(pid, tier):
    ev = Evidence(pid, tier)
    out_lines, violations, machinery = [], [], []
    traces, _ = run_fn(pid, ev, violations, machinery, "UnitsEmit", "Units_Trace", RUNNER, clause_property,
                       "units-case", emit_env={"WHAT": "pair"},
                       nontrivial=lambda t: t["obs"]["compat"] and not t["obs"]["equiv"])
    if not any(t["obs"]["compat"] for t in traces) or all(t["obs"]["compat"] for t in traces):
        machinery.append("vacuous: compatible or incompatible pairs missing")
    run_fn(pid, ev, violations, machinery, "UnitsEmit", "Units_Trace", RUNNER, clause_property, "units-case",
           emit_env={"WHAT": "seq"}, cap=2500 if tier == "quick" else None, nontrivial=lambda t: True)
    ev.cov["rule"] = ("all ordered pairs of the 49-unit catalogue of Units.tla (compatibility, equivalence, exact "
                      "conversion factor as exponents of 2,3,5,pi or exact affine temperature map, conversion on a real "
                      "link, refusal classes) and TLC-enumerated query sequences from a cleared memo cache; "
                      "non-trivial = compatible but not equivalent pair, every query sequence")
    return finish(pid, ev, out_lines, violations, machinery)


def replay(pid, path):
    return replay_fn(pid, path, "Units_Trace", RUNNER, clause_property)
