"""Which module decides which property."""
import importlib

MODULES = {
    "C01": "check_sched", "C02": "check_sched", "C03": "check_sched", "C04": "check_sched", "C05": "check_sched",
    "C06": "check_c06", "C07": "check_c07", "C08": "check_c08", "C09": "check_outbuf", "C10": "check_spill", "C11": "check_timebuf", "C12": "check_timebuf", "C13": "check_delay", "C14": "check_grid", "C15": "check_grid", "C16": "check_c16", "C17": "check_c17", "C18": "check_c18", "C19": "check_c19", "C20": "check_c20",
}


def module_for(pid):
    return importlib.import_module("fv." + MODULES[pid])
