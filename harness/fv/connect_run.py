"""Runs the connect phase of a dependency shape (ConnectFamilies.tla) with real finam
components and records every Component.connect call."""
import re
import shutil
import tempfile

from .common import day, import_finam, ticks

fm = import_finam()
import numpy as np  # noqa: E402

from finam.interfaces import ComponentStatus  # noqa: E402
from finam.tools.connect_helper import FromInput, FromOutput, FromValue  # noqa: E402

ST = {ComponentStatus.INITIALIZED: "init", ComponentStatus.CONNECTING: "connecting",
      ComponentStatus.CONNECTING_IDLE: "idle", ComponentStatus.CONNECTED: "connected"}


class HShape(fm.TimeComponent):
    def __init__(self, idx, k, events):
        super().__init__()
        self._name = f"c{idx}"
        self.idx, self.k, self.events = idx, k, events
        self._time = day(k["off"])

    def _next_time(self):
        return self.time + (day(1) - day(0))

    def _info(self, otag=False):
        # an output's own metadata carries the marker otag (ConnectOps.OutM)
        return fm.Info(time=self.time, grid=fm.NoGrid(), units="m", **({"otag": self.idx} if otag else {}))

    def _initialize(self):
        k = self.k
        if k["hasin"]:
            self.inputs.add(name="In", info=self._info() if k["inown"] else None)
        if k["hasout"]:
            if k["outown"]:
                self.outputs.add(name="Out", info=self._info(otag=True))
            else:
                self.outputs.add(name="Out")
        self.create_connector(
            pull_data=["In"] if k["hasin"] and k["pull"] else [],
            in_info_rules={"In": [FromOutput("Out"), FromValue("ivia", self.idx)]} if k["hasin"] and not k["inown"] else None,
            out_info_rules={"Out": [FromInput("In"), FromValue("ovia", self.idx)]}
            if k["hasout"] and not k["outown"] and not k.get("oprov") else None)

    def _cond(self):
        k, con = self.k, self.connector
        if k["data"] == "imm":
            return True
        if k["data"] == "pulled":
            return con.all_data_pulled
        return (not k["hasin"]) or con.in_infos["In"] is not None

    def _connect(self, start_time):
        push = {}
        self.sup = "none"
        if self.k["hasout"] and not self.connector.data_pushed["Out"] and self._cond():
            guess = (self.k.get("refine") and self.k["hasin"] and self.k["pull"]
                     and not self.connector.all_data_pulled)
            push = {"Out": float(1000 * self.idx + self.k["off"] + (500 if guess else 0))}
            self.sup = "guess" if guess else "final"
        infos = {"Out": self._info(otag=True)} if self.k["hasout"] and self.k.get("oprov") else None
        self.try_connect(start_time, push_infos=infos, push_data=push)

    def _validate(self):
        pass

    def _update(self):
        self._time = self._next_time()

    def _finalize(self):
        pass

    def record(self):
        k, con = self.k, self.connector
        tok = -1
        if k["hasin"] and k["pull"] and con.in_data["In"] is not None:
            tok = int(round(float(np.asarray(fm.data.get_magnitude(con.in_data["In"])).flat[0])))
        self.events.append({
            "c": self.idx, "st": ST.get(self.status, str(self.status)),
            "inX": bool(k["hasin"] and con.in_infos["In"] is not None),
            "inD": bool(k["hasin"] and k["pull"] and con.in_data["In"] is not None),
            "outP": bool(k["hasout"] and con.infos_pushed["Out"]),
            "outX": bool(k["hasout"] and con.out_infos["Out"] is not None),
            "outD": bool(k["hasout"] and con.data_pushed["Out"]),
            "pubs": [ticks(t) for t, _ in self.outputs["Out"].data] if k["hasout"] else [],
            # what this call supplied as initial data, and the values that are published
            "sup": getattr(self, "sup", "none"),
            "pvals": [int(round(float(np.asarray(fm.data.get_magnitude(d)).flat[0])))
                      for _, d in self.outputs["Out"].data] if k["hasout"] else [],
            "tok": tok})
        self.sup = "none"


def markers(info):
    meta = info.meta if info is not None else {}
    return [int(meta.get(key) or 0) for key in ("otag", "ovia", "ivia")]


def run_case(cfg):
    events = []
    comps = [HShape(i, k, events) for i, k in enumerate(cfg["comps"], start=1)]
    memdir = tempfile.mkdtemp(prefix="fv-mem-")
    end = {"out": "ok", "unconnected": [], "meta": []}
    try:
        composition = fm.Composition([comps[i - 1] for i in cfg["order"]], print_log=False,
                                     slot_memory_location=memdir)
        for c in comps:
            if c.k["hasin"]:
                comps[c.k["src"] - 1].outputs["Out"] >> c.inputs["In"]  # pylint: disable=expression-not-assigned
            orig = c.connect

            def connect(start_time, c=c, orig=orig):
                if len(events) > 400:
                    raise RuntimeError("connect does not terminate")
                try:
                    return orig(start_time)
                finally:
                    c.record()

            c.connect = connect
        try:
            composition.connect(day(0))
            end["meta"] = [{"inm": markers(c.inputs["In"].info) if c.k["hasin"] else [0, 0, 0],
                            "outm": markers(c.outputs["Out"].info) if c.k["hasout"] else [0, 0, 0]} for c in comps]
        except fm.errors.FinamCircularCouplingError as e:
            end["out"] = "stall"
            m = re.search(r"Unconnected components: \[(.*)\]", str(e))
            end["unconnected"] = [int(x.strip()[1:]) for x in m.group(1).split(",") if x.strip()] if m else []
        except Exception as e:  # pylint: disable=broad-except
            end["out"] = "err:" + type(e).__name__
    finally:
        shutil.rmtree(memdir, ignore_errors=True)
    return {"case": cfg, "cfg": cfg, "ev": events, "end": end}
