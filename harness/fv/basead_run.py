"""Executes base adapter cases (BaseAd.tla): Scale, ValueToGrid, GridToValue on a real link."""
from fractions import Fraction

from .common import day, import_finam

fm = import_finam()
import numpy as np  # noqa: E402

G = fm.UniformGrid((3, 4))     # cells 2 x 3
H = fm.UniformGrid((4, 3))     # cells 3 x 2


def run_case(c):
    obs = {"res": "ok", "shape": [], "num": 0, "den": 1, "grid": ""}
    try:
        out, inp = fm.Output(name="Out"), fm.Input(name="In")
        if c["ad"] == "scale":
            ada, sgrid, cgrid = fm.adapters.Scale(float(c["k"])), fm.NoGrid(), fm.NoGrid()
            data = float(c["vals"][0])
        elif c["ad"] == "v2g":
            ada = fm.adapters.ValueToGrid(G if c["ggiven"] else None)
            sgrid = fm.NoGrid()
            cgrid = {"g": G, "h": H, "none": None}[c["cgrid"]]
            data = float(c["vals"][0])
        else:
            ada = fm.adapters.GridToValue(np.ma.sum if c["fn"] == "sum" else np.ma.mean)
            sgrid, cgrid = G, None
            data = np.array(c["vals"], dtype=float).reshape(2, 3)
            if any(c["mask"]):
                data = np.ma.masked_array(data, mask=np.array(c["mask"]).reshape(2, 3))
        out >> ada >> inp  # pylint: disable=expression-not-assigned
        inp.ping()
        out.push_info(fm.Info(time=day(0), grid=sgrid, units="m"))
        inp.exchange_info(fm.Info(time=day(0), grid=cgrid, units="m"))
        out.push_data(data, day(0))
        got = fm.data.get_magnitude(inp.pull_data(day(0)))
        obs["shape"] = list(map(int, got.shape))
        arr = np.asarray(np.ma.getdata(got), dtype=float).ravel()
        fr = Fraction(float(arr[0])).limit_denominator(1000)
        if not np.allclose(arr, float(fr), atol=1e-9):
            fr = Fraction(-999999)
        obs["num"], obs["den"] = fr.numerator, fr.denominator
        g = inp.info.grid
        obs["grid"] = "nogrid" if isinstance(g, fm.NoGrid) else ("g" if g == G else "h" if g == H else "?")
    except Exception as e:  # pylint: disable=broad-except
        obs["res"] = "err:" + type(e).__name__
    return {"case": c, "obs": obs}
