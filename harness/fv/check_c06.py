"""C06: iterative connect (Connect.tla / Connect_Trace.tla) + the connect-phase clauses of
whole compositions (Sched_Trace init-* / connect-error)."""
import json
import random

from . import check_sched, tlc
from .check_sched import features, finish, run_configs
from .clauses import sched_property
from .common import seed
from .evidence import Evidence, match_known, save_replay
from .fn_engine import run_cases

INVS = ["RoundBound", "SuccessIffAcyclic", "StallSetExact", "ConnectedOnlyWhenComplete", "WithinLFP",
        "InitialDataPublished"]
TMPL = """SPECIFICATION Spec
CONSTANTS Families = {{{fams}}}
{props}
CHECK_DEADLOCK FALSE
"""


def mc(fams, invs, props):
    text = TMPL.format(fams=", ".join(f'"{f}"' for f in fams),
                       props="\n".join([f"INVARIANT {i}" for i in invs] + [f"PROPERTY {p}" for p in props]))
    return tlc.model_check("Connect", text, timeout=3000)


def check(pid, tier):
    ev = Evidence(pid, tier)
    out_lines, violations, machinery = [], [], []
    rng = random.Random(seed())
    fams = (["ring2", "chain3", "fan", "ring2prov", "chain3refine"] if tier == "quick"
            else ["ring2", "chain3", "fan", "ring2prov", "chain3refine", "ring2refine", "loop3", "ring3", "fanprov"])
    r = mc(fams, INVS, ["Terminates"])
    ev.add_mc("Connect/" + "+".join(fams), r, {"families": fams, "invariants": INVS, "liveness": "Terminates"})
    if not r.ok:
        path = save_replay(pid, {"kind": "tlc-counterexample", "violated": r.violated, "output": r.out[-6000:]})
        violations.append((pid, f"design-level: {r.violated} violated in Connect.tla", path))
    for inv, fam in (("NeverStall", "ring2"), ("NeverOk", "ring2"), ("NeverGuess", "chain3refine")):
        rv = mc([fam], [inv], [])      # vacuity: both outcomes, and a published first guess, are reachable
        if rv.ok:
            machinery.append(f"vacuity guard {inv} was not violated")
    cases = []
    for f in (fams if tier == "quick" else fams):
        got = tlc.emit("ConnectEmit", {"FAMILY": f})
        cap = 2500 if tier == "quick" else 30000
        if len(got) > cap:
            got = rng.sample(got, cap)
            ev.cov["exhaustive"] = False
        cases += got
    if tier == "quick":
        for f in ("loop3", "ring3"):
            cases += rng.sample(tlc.emit("ConnectEmit", {"FAMILY": f}), 1200)
        ev.cov["exhaustive"] = False
    traces = run_cases("connect_run", "run_case", cases)
    herr = [t for t in traces if "harness_error" in t]
    if herr:
        machinery.append(f"{len(herr)} harness errors, first: {herr[0]['harness_error']}")
        traces = [t for t in traces if "harness_error" not in t]
    acc, tot, bad, gen, _ = tlc.validate("Connect_Trace", traces)
    ev.add_traces("Connect_Trace/" + "+".join(fams), acc, tot, gen)
    ev.cov["distinct_nontrivial"] = len([t for t in traces if len(t["ev"]) > 2 * len(t["cfg"]["comps"])])
    ev.cov["rule"] = ("dependency shapes enumerated by TLC from ConnectFamilies.tla, each connected with real "
                      "components; every Component.connect call is one trace event; non-trivial = more than two "
                      "connect rounds were needed or attempted")
    ev.cov["outcomes"] = {k: sum(1 for t in traces if t["end"]["out"] == k) for k in ("ok", "stall")}
    for t in traces[:2]:
        ev.sample(t)
    for k, verdict in sorted(bad.items()):
        path = save_replay(pid, {"kind": "connect-trace", "verdict": verdict, "trace": traces[k]}) if len(violations) < 10 else "(not saved)"
        violations.append((pid, f"connect trace rejected: {verdict} end={traces[k]['end']}", path))
    # components with several inputs and outputs (Connect2.tla): the result of the phase and every
    # call against the least fixpoint over all ports
    cases2 = []
    for f, cap in (("lanes", 2500 if tier == "quick" else None), ("cross", None), ("halfstuck", 1200 if tier == "quick" else None),
                   ("staticlane", 1200 if tier == "quick" else None), ("feedback", 1500 if tier == "quick" else None),
                   ("twist", 800 if tier == "quick" else None)):
        got = tlc.emit("Connect2Emit", {"FAMILY": f})
        ev.cov["runs"].append({"kind": "tlc-case-emission+theorems", "module": "Connect2Emit", "family": f, "cases": len(got)})
        if cap and len(got) > cap:
            got = rng.sample(got, cap)
            ev.cov["exhaustive"] = False
        cases2 += got
    tr2 = run_cases("connect2_run", "run_case", cases2)
    herr = [t for t in tr2 if "harness_error" in t]
    if herr:
        machinery.append(f"{len(herr)} harness errors (multi-port), first: {herr[0]['harness_error']}")
        tr2 = [t for t in tr2 if "harness_error" not in t]
    acc, tot, bad, gen, _ = tlc.validate("Connect2_Trace", tr2)
    ev.add_traces("Connect2_Trace/lanes+cross+halfstuck+staticlane+feedback+twist", acc, tot, gen)
    outs = {k: sum(1 for t in tr2 if t["end"]["out"] == k) for k in ("ok", "stall")}
    ev.cov["outcomes_multiport"] = outs
    if not outs["ok"] or not outs["stall"]:
        machinery.append("vacuous: multi-port shapes must both connect and stall")
    for k, verdict in sorted(bad.items()):
        path = save_replay(pid, {"kind": "connect2-trace", "verdict": verdict, "trace": tr2[k]}) if len(violations) < 10 else "(not saved)"
        violations.append((pid, f"multi-port connect trace rejected: {verdict} end={tr2[k]['end']}", path))
    # connect phase of whole compositions (late starts, adapters, initial pulls)
    cfgs = (tlc.emit("SchedEmit", {"FAMILY": "pair"}) + tlc.emit("SchedEmit", {"FAMILY": "chain3p"})
            + tlc.emit("SchedEmit", {"FAMILY": "fanoutshared"}) + tlc.emit("SchedEmit", {"FAMILY": "trigger"}))
    cap = 3000 if tier == "quick" else 30000
    if len(cfgs) > cap:
        cfgs = rng.sample(cfgs, cap)
    st = [t for t in run_configs([(c, None) for c in cfgs]) if "harness_error" not in t]
    acc, tot, bad, gen, _ = tlc.validate("Sched_Trace", st)
    ev.add_traces("Sched_Trace/connect-phase", acc, tot, gen)
    for k, verdict in sorted(bad.items()):
        t = st[k]
        owned = sched_property(verdict, t["cfg"]) == pid
        # "if the initial data and metadata dependencies are acyclic it ends with every component connected":
        # a circular-coupling report out of connect() for an acyclic composition is C06's as well
        if (verdict.split("@")[0] in ("false-cycle", "false-cycle-zone") and t["end"].get("stage") == "connect"
                and t["cfg"].get("zone", "dag") in ("dag", "resolved")):
            owned = True
        if not owned:
            continue
        kf = match_known(pid, verdict, features(t["cfg"]))
        if kf:
            if kf["id"] not in ev.known:
                ev.known.append(kf["id"])
                out_lines.append(f"KNOWN-FINDING: property={pid} {kf['id']}: {kf['what']}")
            continue
        path = save_replay(pid, {"kind": "sched-trace", "verdict": verdict, "trace": t}) if len(violations) < 10 else "(not saved)"
        violations.append((pid, f"trace rejected: {verdict} outcome={t['end']['out']} features={features(t['cfg'])}", path))
    return finish(pid, ev, out_lines, violations, machinery)


def replay(pid, path):
    with open(path) as f:
        rp = json.load(f)
    if rp.get("kind") == "sched-trace":
        return check_sched.replay(pid, path)
    if rp.get("kind") == "connect2-trace":
        from .fn_engine import _run
        t = _run(("connect2_run", "run_case", rp["trace"]["cfg"]))
        _, _, bad, _, _ = tlc.validate("Connect2_Trace", [t])
        if bad:
            print(f"VIOLATION property={pid} replay={path}  # {bad[0]}")
            return 1
        print("replayed trace accepted")
        return 0
    if rp.get("kind") != "connect-trace":
        print(rp.get("output", "")[-3000:])
        return 0
    from .fn_engine import _run
    t = _run(("connect_run", "run_case", rp["trace"]["cfg"]))
    _, _, bad, _, _ = tlc.validate("Connect_Trace", [t])
    if bad:
        print(f"VIOLATION property={pid} replay={path}  # {bad[0]}")
        return 1
    print("replayed trace accepted")
    return 0
