"""Attribution of monitor clauses / TLC invariants to property ids (DESIGN.md appendix A)."""

# trace monitor clauses (Sched_Trace.tla)
SCHED_CLAUSE = {
    "avail": "C01", "cycle-not-reported": "C04", "served": "C01", "served-notify": "C01", "update-raised": "C01",
    "served-as-modelled": "C01", "update-raised-as-modelled": "C01",
    "choice": "C02",
    "time-before": "C03", "no-late-update": "C03", "updated-after-finished": "C03", "monotone": "C03", "times": "C03",
    "end-reached": "C03", "final-times": "C03", "lifecycle": "C03", "update-count": "C03",
    "finalized": "C03", "adapters-finalized-once": "C03", "terminates": "C03",
    "false-cycle": "C04", "false-cycle-zone": "C04", "cycle-in-connect": "C04",
    "other-error": None,   # C04 for cyclic configurations, C03 otherwise (see below)
    "canon": "C05", "canon-buffered": "C05", "order-dependent": "C05",
    "init-times": "C06", "init-publications": "C06", "connect-error": "C06",
    "delay-shift": "C13", "delay-shift-notify": "C13",
    "provider-time": "C20", "weighted-sum": "C20", "static-input": "C20", "merger-raised": "C20",
    "retained": "C09", "no-files-after-finalize": "C10", "files-in-location": "C10",
    "unknown-component": "C03",
}

# invariants / properties of Sched.tla
SCHED_INV = {
    "AvailableAtUpdate": "C01", "NoRefusedPull": "C01",
    "OnlyAllowedChoices": "C02",
    "Monotone": "C03", "NoLateUpdate": "C03", "NoUpdateAfterFinished": "C03", "EndReached": "C03", "Terminates": "C03",
    "NoFalseCycle": "C04", "CycleOnlyWhenReachable": "C04", "ResolvedCompletes": "C04",
    "UnbrokenReported": "C04", "UnbrokenNeverErr": "C04",
}


def sched_property(clause, cfg):
    base = clause.split("@")[0]
    if base == "other-error":
        return "C04" if cfg.get("zone", "dag") != "dag" else "C03"
    return SCHED_CLAUSE.get(base)
