"""Executes regridding cases (Regrid.tla) through real RegridNearest / RegridLinear adapters."""
from .common import day, import_finam
from .grid_run import make_grid

fm = import_finam()
import numpy as np  # noqa: E402


def build(L, how):
    g = make_grid(L)
    if how == "unstr":
        return g.to_unstructured()
    if how == "upoints":
        return fm.UnstructuredPoints(g.points)
    return g


def build_mesh(mesh):
    """the unstructured source of Regrid.tla (doubled coordinates): triangles and quadrilaterals mixed"""
    pts = np.array(mesh["pts"], dtype=float) / 2.0
    width = max(len(c) for c in mesh["cells"])
    cells = np.array([[n - 1 for n in c] + [-1] * (width - len(c)) for c in mesh["cells"]])
    types = [fm.CellType.TRI if len(c) == 3 else fm.CellType.QUAD for c in mesh["cells"]]
    return fm.UnstructuredGrid(points=pts, cells=cells, cell_types=types, data_location=fm.Location.CELLS)


def shaped(values, grid, how):
    arr = np.array(values)
    return arr.reshape(grid.data_shape) if how == "struct" else arr


def _link(c, gs, gd, data, src_mask, tmask):
    # linear: the target mask is given to the adapter (out_mask), the consumer is flexible;
    # nearest: the consumer demands the mask
    via_adapter = c["kind"] == "linear" and c["tm"]
    ada = (fm.adapters.RegridNearest() if c["kind"] == "nearest"
           else fm.adapters.RegridLinear(fill_with_nearest=bool(c["fill"]), out_mask=tmask if via_adapter else None))
    out, inp = fm.Output(name="Out"), fm.Input(name="In")
    out >> ada >> inp  # pylint: disable=expression-not-assigned
    inp.ping()
    out.push_info(fm.Info(time=day(0), grid=gs, units="m", mask=src_mask))
    inp.exchange_info(fm.Info(time=day(0), grid=gd, units="m",
                              mask=tmask if (c["tm"] and not via_adapter) else fm.Mask.FLEX))
    out.push_data(data, day(0))
    return fm.data.get_magnitude(inp.pull_data(day(0)))[0, ...]


def one_run(case, garbage):
    c = case["c"]
    gs = build_mesh(case["mesh"]) if c["su"] == "umixed" else build(c["src"], c["su"])
    gd = build_mesh(case["mesh"]) if c["tu"] == "umixed" else build(c["dst"], c["tu"])
    vals = shaped([float(v) for v in case["field"]], gs, c["su"]).astype(float)
    smask = shaped(case["smask"], gs, c["su"]).astype(bool)
    tmask = shaped(case["tmask"], gd, c["tu"]).astype(bool)
    if c["sm"]:
        vals = vals.copy()
        vals[smask] = garbage
        data = np.ma.masked_array(vals, mask=smask)
        src_mask = smask
    else:
        data = vals
        src_mask = fm.Mask.NONE
    if case.get("prime"):
        # another adapter of the same kind used the SAME grid objects before, with another source mask
        # (harness-level variant: what an adapter computed for one link must not leak into the next one)
        pm = np.zeros(smask.shape, dtype=bool)
        if not c["sm"] or not smask.ravel()[0]:
            pm.ravel()[0] = True
        pvals = np.where(pm, 555.0, vals)
        try:
            _link(c, gs, gd, np.ma.masked_array(pvals, mask=pm), pm, tmask)
        except Exception:  # pylint: disable=broad-except
            pass                          # the priming link is not the subject of the case
    got = _link(c, gs, gd, data, src_mask, tmask)
    mask = np.ma.getmaskarray(got).ravel()
    raw = np.ma.getdata(got).ravel()
    res = []
    for v, m in zip(raw, mask):
        if m:
            res.append(-1)
        elif not np.isfinite(v):
            res.append(-3)          # an unmasked NaN is a delivered value, and a wrong one
        else:
            r = int(round(float(v)))
            res.append(r if abs(float(v) - r) < 1e-6 else -2)
    return res, [bool(m) for m in mask]


def run_case(case):
    obs = {"res": "ok", "vals": [], "mask": [], "iso": True}
    try:
        v1, m1 = one_run(case, 777.0)
        obs["vals"], obs["mask"] = v1, m1
        if case["c"]["sm"]:
            v2, m2 = one_run(case, -123456.0)
            obs["iso"] = bool(v1 == v2 and m1 == m2)
    except Exception as e:  # pylint: disable=broad-except
        obs["res"] = "err:" + type(e).__name__
    return {"case": case, "obs": obs}


def prime_variants(cases, rng):
    return [dict(c, prime=True) for c in cases if rng.random() < 0.3]
