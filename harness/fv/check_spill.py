"""C10: spilling is invisible and leaves no files.  Three engines: the output model
(OutBuf), the time-adapter model (TimeBuf) and whole compositions run under memory limits
(Sched_Trace: the same trace must be accepted with every limit, no file may remain)."""
import random

from . import check_outbuf, check_timebuf, tlc
from .check_sched import finish, run_configs
from .clauses import sched_property
from .common import jdump, seed
from .evidence import Evidence, save_replay

PID = "C10"


def has_buffer(cfg):
    return any(a["k"] in ("buffer", "integ") for c in cfg["comps"] for lk in c["ins"] for a in lk["chain"])


def check(pid, tier):
    ev = Evidence(pid, tier)
    out_lines, violations, machinery = [], [], []
    check_outbuf.run_engine(pid, tier, ev, violations, machinery)
    check_timebuf.run_engine(pid, tier, ev, violations, machinery)
    # whole compositions under memory limits: payload = one float64 (8 bytes)
    rng = random.Random(seed())
    cfgs = []
    for fam in (["pair", "fanin1"] if tier == "quick" else ["pairL", "fanin1", "chain3t", "fanout", "ring2"]):
        cfgs += tlc.emit("SchedEmit", {"FAMILY": fam})
    cfgs = [c for c in cfgs if has_buffer(c)] + rng.sample(cfgs, min(len(cfgs), 300))
    cap = 500 if tier == "quick" else 8000
    if len(cfgs) > cap:
        cfgs = rng.sample(cfgs, cap)
        ev.cov["exhaustive"] = False
    # components that are never updated (start at or after the end) or finish early still own spill files
    for fam, n in (("lateidle", 60 if tier == "quick" else 600), ("finisher", 40 if tier == "quick" else 400)):
        got = tlc.emit("SchedEmit", {"FAMILY": fam})
        cfgs += rng.sample(got, min(len(got), n))
    # composition-wide limits, and limits set on the slots themselves (location from the composition)
    jobs = [(c, None, lim) for c in cfgs for lim in (None, 0, 8, 20)] + [(c, None, None, lim) for c in cfgs for lim in (0, 12)]
    # unusual spill locations (nested, not existing yet, characters that are special to glob patterns) and a
    # second composition created up front with the same location that runs and is finalized first
    LOCS = ["spill", "scenario[1]/spill", "what-if?", "run*1", "a b/c"]
    sub = rng.sample(cfgs, min(len(cfgs), 150 if tier == "quick" else 1500))
    jobs += [(c, None, lim, None, rng.choice(LOCS), False) for c in sub for lim in (0, 8)]
    jobs += [(c, None, lim, None, rng.choice(["", "spill"]), True) for c in sub[:len(sub) // 2] for lim in (0, 8)]
    traces = run_configs(jobs)
    herr = [t for t in traces if "harness_error" in t]
    if herr:
        machinery.append(f"{len(herr)} harness errors, first: {herr[0]['harness_error']}")
    ok = [(j, t) for j, t in zip(jobs, traces) if "harness_error" not in t]
    traces = [t for _, t in ok]
    acc, tot, bad, gen, _ = tlc.validate("Sched_Trace", traces)
    ev.add_traces("Sched_Trace/memory-limits", acc, tot, gen)
    # a trace rejected under a limit although the unlimited run of the same configuration is
    # accepted means the limit was visible -> C10, whatever clause tripped
    unlimited_ok = {jdump(t["cfg"]) for k, t in enumerate(traces)
                    if t["end"]["limit"] == -1 and t["end"]["slot_limit"] == -1 and k not in bad}
    series = {}
    for k, t in enumerate(traces):
        series.setdefault(jdump(t["cfg"]), {})[(t["end"]["limit"], t["end"]["slot_limit"], t["end"].get("loc", ""), t["end"].get("twin", False))] = jdump([t["end"]["out"], t["end"]["series"]])
    for k, verdict in sorted(bad.items()):
        t = traces[k]
        p = sched_property(verdict, t["cfg"])
        if (t["end"]["limit"] != -1 or t["end"]["slot_limit"] != -1) and jdump(t["cfg"]) in unlimited_ok:
            p = PID
        # a trace rejected by an earlier clause of another property may hide the C10 clauses of the
        # end record: they are evaluated on the record itself (run returned, files left / stray files)
        if p != PID and t["end"]["out"] == "done" and t["end"]["files"] != 0:
            p, verdict = PID, "no-files-after-finalize@end (first rejection: " + verdict + ")"
        if p != PID:
            continue
        path = save_replay(pid, {"kind": "sched-trace", "verdict": verdict, "trace": t,
                                 "limit": t["end"]["limit"]}) if len(violations) < 10 else "(not saved)"
        violations.append((pid, f"composition under memory limit {t['end']['limit']}: {verdict} "
                                f"outcome={t['end']['out']}", path))
    for key, by in series.items():
        if len(set(by.values())) > 1:
            path = "(not saved)"
            violations.append((pid, f"delivered series differs between memory limits {sorted(map(str, by))} for {key[:200]}", path))
    return finish(pid, ev, out_lines, violations, machinery)


def replay(pid, path):
    import json
    with open(path) as f:
        kind = json.load(f).get("kind")
    if kind == "outbuf-trace":
        return check_outbuf.replay(pid, path)
    if kind == "timebuf-trace":
        return check_timebuf.replay(pid, path)
    from . import check_sched
    return check_sched.replay(pid, path)
