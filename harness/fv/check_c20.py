"""C20: static slots (OutBuf engine), pull-based components and the WeightedSum merger
(scheduler model and traces of compositions with pull-based components in between)."""
import random

from . import check_outbuf, check_sched, tlc
from .check_sched import features, finish, mc, run_configs, trace_features
from .clauses import sched_property
from .common import jdump, seed
from .evidence import Evidence, match_known, save_replay

FAMS_Q = ["chain3p", "diamondp", "pullchain2", "pullring", "pullringtail", "pullringtail0", "wsum", "wsumback", "pulltwice", "trigger", "staticin", "wsumstatic", "diamondpd"]
FAMS_T = FAMS_Q
EXTENDED = {"avail", "served", "served-as-modelled", "update-raised-as-modelled", "served-notify", "choice", "update-raised", "delay-shift", "canon",
            "false-cycle", "false-cycle-zone", "cycle-not-reported"}


def check(pid, tier):
    ev = Evidence(pid, tier)
    out_lines, violations, machinery = [], [], []
    check_outbuf.run_engine(pid, tier, ev, violations, machinery)
    # a static input serves, at every read, the value it fetched and converted first (Payload.tla, static links
    # with unit conversion and both grid layouts; the second read is observed)
    from .fn_engine import run_fn
    run_fn(pid, ev, violations, machinery, "PayloadEmit", "Payload_Trace", ("payload_run", "run_case"),
           lambda verdict, case: "C20", "payload-case", emit_env={"WHAT": "static"},
           nontrivial=lambda t: t["obs"]["res"] == "ok")
    fams = FAMS_Q if tier == "quick" else FAMS_T
    r = mc(fams, "intended", "impl", ["NoRefusedPull"], ["AvailableAtUpdate", "OnlyAllowedChoices"])
    ev.add_mc("Sched/intended/" + "+".join(fams), r, {"families": fams})
    if not r.ok:
        path = save_replay(pid, {"kind": "tlc-counterexample", "violated": r.violated, "output": r.out[-6000:]})
        violations.append((pid, f"design-level: {r.violated} violated in Sched.tla (pull-component families)", path))
    rn = mc(["pullfanout"], "intended", "impl", ["NoRefusedPull"], [])
    if not rn.ok and "NoRefusedPull" in rn.violated:
        out_lines.append("KNOWN-FINDING: property=C20 C20-pull-fanout-eviction: design-level counterexample "
                         "(NoRefusedPull) in family pullfanout")
        ev.known.append("C20-pull-fanout-eviction:design")
    else:
        machinery.append("known finding C20-pull-fanout-eviction no longer has a design-level counterexample")
    rng = random.Random(seed())
    cfgs = []
    for f in fams + ["pullfanout"]:
        got = tlc.emit("SchedEmit", {"FAMILY": f})
        cap = 1500 if tier == "quick" else 40000
        if len(got) > cap:
            got = rng.sample(got, cap)
            ev.cov["exhaustive"] = False
        cfgs += got
    traces = run_configs([(c, None) for c in cfgs])
    herr = [t for t in traces if "harness_error" in t]
    if herr:
        machinery.append(f"{len(herr)} harness errors, first: {herr[0]['harness_error']}")
        traces = [t for t in traces if "harness_error" not in t]
    acc, tot, bad, gen, _ = tlc.validate("Sched_Trace", traces)
    ev.add_traces("Sched_Trace/" + "+".join(fams + ["pullfanout"]), acc, tot, gen)
    ev.cov["distinct_nontrivial"] += len({jdump(t["cfg"]) for t in traces
                                          if any(r["l"][0] and t["cfg"]["comps"][r["l"][0] - 1]["kind"] == "pull"
                                                 for e in t["ev"] for r in e["log"])})
    ev.cov["rule"] += ("; scheduler part: TLC-enumerated configurations with pull-based components, non-trivial = "
                       "a pull-based component pulled its own inputs during some update")
    for k, verdict in sorted(bad.items()):
        t = traces[k]
        p = sched_property(verdict, t["cfg"])
        base = verdict.split("@")[0]
        if base in EXTENDED and "pull_component" in features(t["cfg"]):
            p = pid      # the scheduling guarantee extends through pull-based components
        if p != pid:
            continue
        kf = match_known(pid, verdict, trace_features(t, verdict))
        if kf:
            if kf["id"] not in ev.known:
                ev.known.append(kf["id"])
                out_lines.append(f"KNOWN-FINDING: property={pid} {kf['id']}: {kf['what']}")
            continue
        path = save_replay(pid, {"kind": "sched-trace", "verdict": verdict, "trace": t}) if len(violations) < 10 else "(not saved)"
        violations.append((pid, f"trace rejected: {verdict} outcome={t['end']['out']}", path))
    return finish(pid, ev, out_lines, violations, machinery)


def replay(pid, path):
    import json
    with open(path) as f:
        kind = json.load(f).get("kind")
    if kind == "outbuf-trace":
        return check_outbuf.replay(pid, path)
    if kind == "payload-case":
        from .fn_engine import replay_fn
        return replay_fn(pid, path, "Payload_Trace", ("payload_run", "run_case"), lambda v, c: "C20")
    return check_sched.replay(pid, path)
