"""Single table from which bin/mkmanifest generates MANIFEST.json."""
HOOK_COMMITS = []

SCHED_NOTE = ("Bounded: 2-5 components, steps 1-5, chains of <= 3 adapters, end time <= 7 (family definitions in "
              "spec/SchedFamilies.tla). Trusted: TLC, the harness components (HTime/HPull) and the recorder; the spec "
              "state is advanced by the same EUpdate operator in model checking and trace validation.")

CHECKS = {
 "C01": dict(engine="check_sched", ref="6 C01",
   technique="TLC model checking (Sched.tla: AvailableAtUpdate, NoRefusedPull) + TLC trace validation of the real driver (clauses avail/served)",
   text="Exhaustive TLC exploration of the scheduler model over all configurations of the DAG/ring/pull-component families proves the availability invariant for the design; every enumerated configuration is then run on the real Composition and each update is checked by TLC against the same guards (input availability at the announced time, no refused pull). Negative controls (as-implemented driver variants) must yield counterexamples.",
   note=SCHED_NOTE),
 "C02": dict(engine="check_sched", ref="6 C02",
   technique="TLC model checking (OnlyAllowedChoices) + TLC trace validation (clause choice)",
   text="TLC checks on the model that every update of the as-coded driver is an allowed choice (least advanced or transitively lacking upstream), and validates every update of the real driver on all enumerated configurations against the same AllowedChoice guard; the pinned commit's 'last delay wins' variant is the negative control.",
   note=SCHED_NOTE),
 "C03": dict(engine="check_sched", ref="6 C03",
   technique="TLC model checking with liveness (Terminates, EndReached, Monotone, NoLateUpdate) + TLC trace validation of life cycles",
   text="Termination is checked as a liveness property under weak fairness on the full configuration space; end-time, monotonicity and no-late-update are invariants/action properties; the real runs' complete call histories (initialize, connect+, validate, update*, finalize; adapters finalized once) are validated by the trace monitor.",
   note=SCHED_NOTE),
 "C04": dict(engine="check_sched", ref="6 C04",
   technique="TLC model checking of ring/chord/pull-ring families (NoFalseCycle, ResolvedCompletes, UnbrokenReported) + trace validation of the outcome class",
   text="All enumerated cyclic configurations (rings of 2-5 with split delays, chords, tails, rings through pull-based components) are model checked: resolved rings complete, a cycle error is raised only when a lacking cycle is reachable; the real code's outcome class for each configuration is validated against the spec state (false-cycle, other-error clauses).",
   note=SCHED_NOTE),
}

NOT_APPLICABLE = {
 **{f"C{n:02d}": "check not built yet in this round (the TLA+ module for it is planned in DESIGN.md section 3)" for n in range(5, 21)},
}
