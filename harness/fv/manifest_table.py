"""Single table from which bin/mkmanifest generates MANIFEST.json."""
HOOK_COMMITS = []

SCHED_NOTE = ("Bounded: 2-5 components, steps 1-5, chains of <= 3 adapters, end time <= 7 (family definitions in "
              "spec/SchedFamilies.tla). Trusted: TLC, the harness components (HTime/HPull) and the recorder; the spec "
              "state is advanced by the same EUpdate operator in model checking and trace validation.")

CHECKS = {
 "C01": dict(engine="check_sched", ref="6 C01",
   technique="TLC model checking (Sched.tla: AvailableAtUpdate, NoRefusedPull) + TLC trace validation of the real driver (clauses avail/served)",
   text="Exhaustive TLC exploration of the scheduler model over all configurations of the DAG/ring/pull-component families proves the availability invariant for the design; every enumerated configuration is then run on the real Composition and each update is checked by TLC against the same guards (input availability at the announced time, no refused pull). Negative controls (as-implemented driver variants) must yield counterexamples.",
   note=SCHED_NOTE),
 "C02": dict(engine="check_sched", ref="6 C02",
   technique="TLC model checking (OnlyAllowedChoices) + TLC trace validation (clause choice)",
   text="TLC checks on the model that every update of the as-coded driver is an allowed choice (least advanced or transitively lacking upstream), and validates every update of the real driver on all enumerated configurations against the same AllowedChoice guard; the pinned commit's 'last delay wins' variant is the negative control.",
   note=SCHED_NOTE),
 "C03": dict(engine="check_sched", ref="6 C03",
   technique="TLC model checking with liveness (Terminates, EndReached, Monotone, NoLateUpdate) + TLC trace validation of life cycles",
   text="Termination is checked as a liveness property under weak fairness on the full configuration space; end-time, monotonicity and no-late-update are invariants/action properties; the real runs' complete call histories (initialize, connect+, validate, update*, finalize; adapters finalized once) are validated by the trace monitor.",
   note=SCHED_NOTE),
 "C04": dict(engine="check_sched", ref="6 C04",
   technique="TLC model checking of ring/chord/pull-ring families (NoFalseCycle, ResolvedCompletes, UnbrokenReported) + trace validation of the outcome class",
   text="All enumerated cyclic configurations (rings of 2-5 with split delays, chords, tails, rings through pull-based components) are model checked: resolved rings complete, a cycle error is raised only when a lacking cycle is reachable; the real code's outcome class for each configuration is validated against the spec state (false-cycle, other-error clauses).",
   note=SCHED_NOTE),
 "C05": dict(engine="check_sched", ref="6 C05",
   technique="TLC model checking of the nondeterministic property-level scheduler against the as-coded driver (OrderIndependent) + real runs under all listing/link orders, each trace validated by TLC",
   text="In mode 'abs' TLC explores every admissible update order of the property-level scheduler and checks that outcome class, final times and everything every consumer received equal those of the deterministic as-coded driver (so the outcome is a function of the configuration). Every base configuration is run on the real code under all listing orders (<= 24) and several link creation orders; each trace is validated (served tokens canonical) and outcomes are compared across orders.",
   note=SCHED_NOTE + " Domain as stated in the property: no DelayToPush (a negative control shows order dependence with it)."),
 "C09": dict(engine="check_outbuf", ref="6 C09",
   technique="TLC model checking of OutBuf.tla (ServeAsUnlimited, Bound) + TLC-generated operation scripts replayed on a real Output, traces validated by TLC",
   text="All interleavings of publications and per-consumer pulls up to the bounds are explored by TLC with the ghost unlimited history (nothing needed is dropped, history bound); every behaviour up to length 5 and simulated behaviours up to length 16 are executed on a real Output with 1-4 real end points (direct, behind pass-through adapter, push-based adapter) and validated event by event (served id, retained times).",
   note="Bounded: <= 4 end points, <= 8 publications, gaps 1-4 ticks. Trusted: TLC, the script runner (harness/fv/outbuf_run.py)."),
 "C10": dict(engine="check_spill", ref="6 C10",
   technique="TLC model checking of OutBuf.tla/TimeBuf.tla with memory limits (accounting invariants) + scripts replayed on real outputs/adapters + whole compositions under limits validated by Sched_Trace",
   text="Spill decisions, file accounting and finalisation are modelled for outputs and for every time adapter kind, for plain and masked payloads and limits around multiples of the payload size; TLC-generated scripts are executed on the real slots (served values, which entries are files, directory listing of the location and of a scratch working directory); compositions are run with limits None/0/8/20 and must produce TLC-accepted, identical series and leave no file.",
   note="Payload sizes 8/16 bytes; limits {None,0,k*size-1,k*size}. Trusted: TLC, runners, os.listdir."),
 "C11": dict(engine="check_timebuf", ref="6 C11",
   technique="TLC model checking of TimeBuf.tla (exact rational definitions, eviction transparency) + scripts replayed on real adapters, values compared as exact rationals by TLC",
   text="The definitions (next, previous, linear, step with dyadic positions) are written as exact rational functions of the full history; TLC checks that the retained buffer always yields the definition over the full history, exactness at publication times and refusal outside the range; TLC-generated scripts run on real NextTime/PreviousTime/LinearTime/StepTime (scalar and gridded) and every returned value is compared with the definition.",
   note="Bounded: <= 7 publications, gaps 1-4, values from small integer sets; floats are converted to rationals with 1e-9 tolerance before the exact comparison."),
 "C12": dict(engine="check_timebuf", ref="6 C12",
   technique="TLC model checking of TimeBuf.tla (exact integrals, additivity over partitions, average in range) + scripts replayed on real AvgOverTime/SumOverTime",
   text="Integrals of the linear/step interpolant are exact rationals; TLC checks additivity over arbitrary partitions, avg = integral/(p1-p0), average within contributing values, eviction transparency; scripts run on the real adapters (per-time and absolute sums, step positions, units of the result).",
   note="First pull and repeated pulls at the same time are not asserted (outside the statement). Same bounds as C11."),
 "C13": dict(engine="check_delay", ref="6 C13",
   technique="TLC model checking of Delay.tla (adapter semantics restated over ghost request histories) + scripts replayed on real delay adapter chains + Sched_Trace delay-shift clauses",
   text="Chains of 1-3 DelayFixed/DelayToPull/DelayToPush/pass-through adapters under arbitrary non-decreasing request sequences: TLC checks that the operational model equals the statement's wording (n-th previous request, clamping, min with newest publication, fixed delays add up); generated scripts run on real chains and the time arriving at the source output and the served token are validated; whole-composition traces validate that the requested time is the one the scheduler model assumes.",
   note="Bounded: delays 1-5, steps counts 1-3, <= 6 publications. The clamp max(t - delay, start time) is taken literally (a request before the producer's start is moved to the start)."),
}

NOT_APPLICABLE = {
 **{f"C{n:02d}": "check not built yet in this round (the TLA+ module for it is planned in DESIGN.md section 3)" for n in (6, 7, 8, 14, 15, 16, 17, 18, 19, 20)},
}
