"""C14 (index-to-coordinate mapping, location memo) and C15 (canonical form, compatibility,
conversion on links) with Grid.tla."""
from .check_sched import finish
from .evidence import Evidence
from .fn_engine import replay_fn, run_fn

RUNNER = ("grid_run", "run_case")
CLAUSE = {"grid-shape": "C14", "grid-axes": "C14", "grid-points": "C14", "grid-cells": "C14",
          "grid-unstructured-cast": "C14", "grid-location-memo": "C14", "grid-raised": "C14",
          "grid-conversion-raised": "C15",
          "canonical-order": "C15", "canon-roundtrip": "C15", "compatible-iff-same-locations": "C15",
          "transform-located": "C15", "transform-shape": "C15", "transform-mask": "C15"}


def clause_property(verdict, case):
    return CLAUSE.get(verdict.split("@")[0])


WHATS = {"C14": [("layout", 2500, None), ("memo", 3000, None), ("memo2", 3000, None)],
         "C15": [("canon", None, None), ("compat", 3000, None), ("link", 5000, 60000)]}


def cast_variants(cases, rng):
    """The same cases with grids obtained through to_rectilinear() / to_uniform() casts."""
    out = []
    for c in cases:
        keys = [k for k in ("L", "src", "dst") if isinstance(c.get(k), dict) and c[k]["kind"] in ("uniform", "esri")]
        if not keys or c.get("what") in ("memo", "memo2") or rng.random() > 0.25:
            continue
        v = dict(c)
        for k in keys:
            if rng.random() < 0.7:
                v[k] = dict(c[k], cast="uni" if (c[k]["kind"] == "esri" and rng.random() < 0.3) else "rect")
        if v != c:
            out.append(v)
    return out


def link_variants(cases, rng):
    """cast variants plus, for link cases, a second consumer with the mirrored layout exchanging first / second"""
    out = cast_variants(cases, rng)
    for c in cases:
        if c.get("what") == "link" and not c.get("st") and not c.get("stk") and c["dst"]["kind"] != "esri" and rng.random() < 0.3:
            out.append(dict(c, prime=rng.choice(["first", "second"])))
    return out


def check(pid, tier):
    ev = Evidence(pid, tier)
    out_lines, violations, machinery = [], [], []
    for what, qcap, tcap in WHATS[pid]:
        traces, _ = run_fn(pid, ev, violations, machinery, "GridEmit", "Grid_Trace", RUNNER, clause_property,
                           "grid-case", emit_env={"WHAT": what}, cap=qcap if tier == "quick" else tcap,
                           nontrivial=lambda t: len((t["case"].get("L") or t["case"].get("src"))["dims"]) >= 2,
                           derive=link_variants)
        if what == "link":
            n_ok = sum(1 for t in traces if t["obs"].get("res") == "ok")
            if n_ok == 0:
                machinery.append("vacuous: no link delivered data")
    ev.cov["rule"] = ("cases enumerated by TLC from Grid.tla: every layout (dimension, axis lengths 1-3, order, "
                      "axes_reversed, per-axis direction, location; uniform / rectilinear / ESRI), property-read / "
                      "set-location / copy sequences, layout pairs of equal and different geometry; each executed on "
                      "real grid objects or a real Output->Input link; non-trivial = at least two dimensions")
    return finish(pid, ev, out_lines, violations, machinery)


def replay(pid, path):
    return replay_fn(pid, path, "Grid_Trace", RUNNER, clause_property)
