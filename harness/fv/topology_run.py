"""Builds one link topology (Topology.tla) from real finam slots / adapters and records
what Composition.connect() does with it."""
import shutil
import tempfile

from .common import day, import_finam

fm = import_finam()
from finam.interfaces import NoBranchAdapter  # noqa: E402


class Counter:
    def __init__(self):
        self.pushes = 0


class Src(fm.TimeComponent):
    def __init__(self, kind, counter):
        super().__init__()
        self._name = "src"
        self.kind, self.counter = kind, counter
        self._time = day(0)
        if kind == "pull":
            self.outputs.add(fm.CallbackOutput(callback=lambda _c, _t: 1.0, name="Out", time=day(0),
                                               grid=fm.NoGrid(), units="m"))
        else:
            self.outputs.add(name="Out", time=day(0), grid=fm.NoGrid(), units="m", static=(kind == "static"))
        out = self.outputs["Out"]
        if kind != "pull":
            orig = out.push_data

            def push_data(data, time):
                counter.pushes += 1
                return orig(data, time)

            out.push_data = push_data

    def _next_time(self):
        return self.time + (day(1) - day(0))

    def _initialize(self):
        self.create_connector()

    def _connect(self, start_time):
        push = {} if self.kind == "pull" or self.connector.data_pushed.get("Out") else {"Out": 1.0}
        self.try_connect(start_time, push_data=push)

    def _validate(self):
        pass

    def _update(self):
        self._time = self._next_time()

    def _finalize(self):
        pass


class Cons(fm.TimeComponent):
    def __init__(self, name, leaf, extra):
        super().__init__()
        self._name = name
        self._time = day(0)
        info = dict(time=None, grid=fm.NoGrid(), units=None)
        if leaf in ("push", "pushstatic"):
            self.inputs.add(fm.CallbackInput(callback=lambda _c, _t: None, name="In",
                                             static=(leaf == "pushstatic"), **info))
        else:
            self.inputs.add(name="In", static=(leaf == "static"), **info)
        if extra:
            self.inputs.add(name="Extra", **info)

    def _next_time(self):
        return self.time + (day(1) - day(0))

    def _initialize(self):
        self.create_connector()

    def _connect(self, start_time):
        self.try_connect(start_time)

    def _validate(self):
        pass

    def _update(self):
        self._time = self._next_time()

    def _finalize(self):
        pass


class PushB(fm.Adapter):
    """Adapter that must be notified by pushes (and may branch)."""

    def __init__(self):
        super().__init__()
        self._last = None

    @property
    def needs_push(self):
        return True

    def _source_updated(self, time):
        self._last = self.pull_data(time, self)

    def _get_data(self, time, target):
        return self._last


class NoBr(fm.Adapter, NoBranchAdapter):
    def _get_data(self, time, target):
        return self.pull_data(time, target)


def make(kind):
    if kind == "pass":
        return fm.adapters.Scale(1.0)
    if kind == "pushb":
        return PushB()
    if kind == "nobr":
        return NoBr()
    if kind == "timead":
        return fm.adapters.NextTime()
    if kind == "delay":
        return fm.adapters.DelayFixed(day(1) - day(0))
    if kind == "topull":
        return fm.adapters.DelayToPull(steps=1)
    raise ValueError(kind)


def run_case(case):
    counter = Counter()
    src = Src(case["src"], counter)
    cons1 = Cons("cons1", case["leaf"], case["unconn"])
    extra = [Cons(f"cons{k + 2}", b["leaf"], False) for k, b in enumerate(case["brs"])]
    comps = ([src] if case["srcIn"] else []) + ([cons1] if case["leafIn"] else []) + [
        c for c, b in zip(extra, case["brs"]) if b.get("lin", True)]
    memdir = tempfile.mkdtemp(prefix="fv-mem-")
    obs = {"res": "ok", "pushes": 0, "nlinks": 0, "linksok": True}
    try:
        composition = fm.Composition(comps, print_log=False, slot_memory_location=memdir)
        # slots exist since construction; components outside the composition are initialized by hand
        for c in [src, cons1] + extra:
            if c not in comps:
                c.initialize()
        nodes = [src.outputs["Out"]]
        for k in case["chain"]:
            ada = make(k)
            nodes[-1] >> ada  # pylint: disable=pointless-statement
            nodes.append(ada)
        nodes[-1] >> cons1.inputs["In"]  # pylint: disable=pointless-statement
        created = len(case["chain"]) + 1
        for b, cons in zip(case["brs"], extra):      # branches are linked in the listed order
            cur = nodes[b["at"]]
            for k in b["chain"]:
                ada = make(k)
                cur >> ada  # pylint: disable=pointless-statement
                cur = ada
            cur >> cons.inputs["In"]  # pylint: disable=pointless-statement
            created += len(b["chain"]) + 1
        try:
            composition.connect(day(0))
            links = composition.metadata["links"]
            obs["nlinks"] = len(links)
            keys = {(str(sorted(l["from"].items())), str(sorted(l["to"].items()))) for l in links}
            obs["linksok"] = len(keys) == created and all(
                ("component" in l["from"] or "adapter" in l["from"]) and ("component" in l["to"] or "adapter" in l["to"])
                for l in links)
        except Exception as e:  # pylint: disable=broad-except
            obs["res"] = "err:" + type(e).__name__
        obs["pushes"] = counter.pushes
    finally:
        shutil.rmtree(memdir, ignore_errors=True)
    return {"case": case, "obs": obs}
