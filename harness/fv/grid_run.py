"""Executes grid cases (Grid.tla) on real finam grid classes and links."""
from .common import day, import_finam

fm = import_finam()
import numpy as np  # noqa: E402


def d2(x):
    """doubled integer coordinate (exact for the lattices used)"""
    r = int(round(2.0 * float(x)))
    if abs(2.0 * float(x) - r) > 1e-9:
        raise ValueError(f"coordinate {x} is not a half integer")
    return r


def make_grid(L):
    """L.cast (added by the harness, not part of the specification's layout): the same grid obtained through
    finam's casts - "rect": UniformGrid/EsriGrid.to_rectilinear(), "uni": EsriGrid.to_uniform()."""
    g = _make_grid(L)
    cast = L.get("cast")
    if cast == "rect" and L["kind"] in ("uniform", "esri"):
        g = g.to_rectilinear()
    elif cast == "uni" and L["kind"] == "esri":
        g = g.to_uniform()
    return g


def _make_grid(L):
    loc = "CELLS" if L["loc"] == "cells" else "POINTS"
    if L["kind"] == "uniform":
        return fm.UniformGrid(tuple(L["dims"]), data_location=loc, order=L["order"], axes_reversed=L["rev"],
                              axes_increase=tuple(L["inc"]))
    if L["kind"] in ("rect", "rectb"):
        axes = []
        for n, inc in zip(L["dims"], L["inc"]):
            pts = np.array([(k * (k + 1)) / 2.0 for k in range(n)])
            if L["kind"] == "rectb" and n >= 3:
                pts[1:-1] += 1.0
            axes.append(pts if inc else pts[::-1])
        return fm.RectilinearGrid(axes, data_location=loc, order=L["order"], axes_reversed=L["rev"])
    return fm.EsriGrid(ncols=L["dims"][0] - 1, nrows=L["dims"][1] - 1, order=L["order"])


def cells_ok(g):
    pts, cells, cen = np.asarray(g.points), np.asarray(g.cells), np.asarray(g.cell_centers)
    if cells.ndim != 2 or len(cells) != g.cell_count or len(cen) != g.cell_count:
        return False
    for c, nodes in enumerate(cells):
        nodes = nodes[nodes >= 0]
        if np.any(nodes >= len(pts)):
            return False
        if not np.allclose(cen[c], pts[nodes].mean(axis=0)):
            return False
    return True


def pts_list(a):
    return [[d2(x) for x in row] for row in np.atleast_2d(np.asarray(a))]


def run_case(case):
    try:
        return _run_case(case)
    except Exception as e:  # pylint: disable=broad-except
        # an exception of the code under test is an observation, not a harness failure
        return {"case": case, "obs": {"res": "err:" + type(e).__name__, "raised": True}}


def _run_case(case):
    what = case["what"]
    if what == "layout":
        g = make_grid(case["L"])
        u = g.to_unstructured()
        obs = {"shape": list(map(int, g.data_shape)), "size": int(g.data_size),
               "axes": [[d2(x) for x in ax] for ax in g.data_axes], "points": pts_list(g.data_points),
               "cellsok": bool(cells_ok(g)), "ushape": list(map(int, u.data_shape)),
               "upoints": pts_list(u.data_points), "ucellsok": bool(cells_ok(u))}
    elif what == "memo":
        g = other = make_grid(case["L"])
        res = []
        for op in case["ops"]:
            if op == "shape":
                res.append(list(map(int, g.data_shape)))
            elif op == "size":
                res.append([int(g.data_size)])
            elif op == "npoints":
                res.append([int(len(g.data_points))])
            elif op == "copy":
                other, g = g, g.copy()
                res.append([])
            elif op == "swap":
                other, g = g, other
                res.append([])
            else:
                g.data_location = "CELLS" if op == "cells" else "POINTS"
                res.append([])
        obs = {"res": res}
    elif what == "canon":
        g = make_grid(case["L"])
        arr = np.array(case["field"], dtype=float).reshape(g.data_shape)
        can = g.to_canonical(arr)
        back = g.from_canonical(can)
        obs = {"canon": [int(x) for x in np.asarray(can).ravel()], "cshape": list(map(int, np.shape(can))),
               "back": [int(x) for x in np.asarray(back).ravel()]}
    elif what == "compat":
        obs = {"compat": bool(make_grid(case["src"]).compatible_with(make_grid(case["dst"])))}
    else:
        gs, gd = make_grid(case["src"]), make_grid(case["dst"])
        arr = np.array(case["field"], dtype=float).reshape(gs.data_shape)
        if case["masked"]:
            arr = np.ma.masked_array(arr, mask=(arr.astype(int) % 3 == 0))
        static = bool(case.get("st"))
        t0 = None if static else day(0)
        out, inp = fm.Output(name="Out", static=static), fm.Input(name="In", static=static)
        if case.get("stk"):
            out >> fm.adapters.StackTime() >> inp  # pylint: disable=expression-not-assigned
        else:
            out >> inp  # pylint: disable=pointless-statement
        inp.ping()
        other = None
        if case.get("prime") and not static and not case.get("stk") and case["dst"]["kind"] != "esri":
            # a second consumer of the same output with the mirrored layout of the same geometry; prime = "first":
            # it exchanges its metadata before the observed consumer, "second": after it (harness-level variant:
            # what the observed consumer receives must not depend on its neighbour or on the order)
            other = fm.Input(name="In0")
            out >> other  # pylint: disable=pointless-statement
            other.ping()
            g0 = make_grid(dict(case["dst"], inc=[not x for x in case["dst"]["inc"]]))
        obs = {"res": "ok", "shape": [], "field": [], "mask": []}
        try:
            out.push_info(fm.Info(time=t0, grid=gs, units="m"))
            if other is not None and case["prime"] == "first":
                other.exchange_info(fm.Info(time=t0, grid=g0, units="m"))
            inp.exchange_info(fm.Info(time=t0, grid=gd, units="m"))
            if other is not None and case["prime"] != "first":
                other.exchange_info(fm.Info(time=t0, grid=g0, units="m"))
            out.push_data(arr, t0)
            if case.get("stk"):
                out.push_data(arr + 500.0, day(1))
                data = fm.data.get_magnitude(inp.pull_data(day(1)))
            else:
                data = fm.data.get_magnitude(inp.pull_data(day(0)))
            if static:
                data = fm.data.get_magnitude(inp.pull_data(day(2)))
            obs["shape"] = list(map(int, data.shape))
            obs["field"] = [int(round(float(x))) for x in np.ma.getdata(data).ravel()]
            obs["mask"] = [bool(x) for x in np.ma.getmaskarray(data).ravel()]
            if case["masked"]:   # masked cells carry no value: compare them by position only
                exp_mask = obs["mask"]
                obs["field"] = [f if not m else -1 for f, m in zip(obs["field"], exp_mask)]
        except Exception as e:  # pylint: disable=broad-except
            obs["res"] = "err:" + type(e).__name__
    return {"case": case, "obs": obs}
