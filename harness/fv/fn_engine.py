"""Engine for the function-like modules (Payload, Meta, Topology, Grid, MaskOps, Regrid,
Units): TLC evaluates the module's theorems over the whole case space and emits the cases;
every case is executed on the real code; TLC evaluates the specification operator on the
recorded input and compares it with the recorded output (single-event traces)."""
import importlib
import json
import multiprocessing as mp
import random

from . import tlc
from .common import jdump, seed
from .evidence import save_replay


def _run(job):
    modname, fn, case = job
    mod = importlib.import_module("fv." + modname)
    try:
        return getattr(mod, fn)(case)
    except Exception as e:  # pylint: disable=broad-except
        return {"harness_error": f"{type(e).__name__}: {e}", "case": case}


def run_cases(modname, fn, cases, procs=16):
    with mp.Pool(procs) as pool:
        return pool.map(_run, [(modname, fn, c) for c in cases], chunksize=20)


def run_fn(pid, ev, violations, machinery, emit_module, trace_module, runner, clause_property,
           kind, emit_env=None, cap=None, nontrivial=None, extra_cases=None, derive=None):
    rng = random.Random(seed())
    cases = tlc.emit(emit_module, emit_env or {})
    total = len(cases)
    if extra_cases:
        cases = cases + extra_cases
    if cap and len(cases) > cap:
        cases = rng.sample(cases, cap)
        ev.cov["exhaustive"] = False
    if derive:                      # harness-level variants of the emitted cases (same expectation)
        extra = derive(cases, rng)
        ev.cov["runs"].append({"kind": "derived-cases", "module": emit_module, "cases": len(extra), "env": emit_env or {}})
        cases = cases + extra
    ev.cov["runs"].append({"kind": "tlc-case-emission+theorems", "module": emit_module, "cases": total,
                           "env": emit_env or {}})
    ev.cov["states"] += max(total, 1)
    ev.cov["transitions"] += max(total, 1)
    traces = run_cases(runner[0], runner[1], cases)
    herr = [t for t in traces if "harness_error" in t]
    if herr:
        machinery.append(f"{len(herr)} harness errors, first: {herr[0]['harness_error']}")
        traces = [t for t in traces if "harness_error" not in t]
    acc, tot, bad, gen, _ = tlc.validate(trace_module, traces)
    ev.add_traces(trace_module, acc, tot, gen)
    nt = [t for t in traces if (nontrivial(t) if nontrivial else True)]
    ev.cov["distinct_nontrivial"] += len({jdump(t["case"]) for t in nt})
    for t in traces[:2]:
        ev.sample(t)
    other = ev.cov.setdefault("other_property_rejections", {})
    for k, verdict in sorted(bad.items()):
        t = traces[k]
        p = clause_property(verdict, t["case"])
        if p != pid:
            other[str(p)] = other.get(str(p), 0) + 1
            continue
        path = save_replay(pid, {"kind": kind, "verdict": verdict, "trace": t}) if len(violations) < 10 else "(not saved)"
        violations.append((pid, f"case rejected: {verdict} case={jdump(t['case'])[:300]} obs={jdump(t.get('obs'))[:300]}", path))
    return traces, bad


def replay_fn(pid, path, trace_module, runner, clause_property):
    with open(path) as f:
        rp = json.load(f)
    t = _run((runner[0], runner[1], rp["trace"]["case"]))
    _, _, bad, _, _ = tlc.validate(trace_module, [t])
    if bad:
        print(f"VIOLATION property={clause_property(bad[0], t['case'])} replay={path}  # {bad[0]}")
        return 1
    print("replayed case accepted")
    return 0
