"""Checks decided with the output-history specification (OutBuf.tla / OutBuf_Trace.tla):
C09 (history); also provides the output-side engine runs of C08, C10 and C20."""
from .check_sched import finish
from .evidence import Evidence
from .script_engine import Engine

CLAUSE = {
    "retained": "C09", "as-unlimited": "C09",
    "nearest": "C08", "range": "C08", "served": "C08",
    "spill-threshold": "C10", "files-accounting": "C10", "files-in-location": "C10",
    "spill-transparent": "C10", "no-files-after-finalize": "C10", "finalize-raised": "C10",
    "finalize-clears": "C10", "push-refused": None,
    "static-once": "C20", "static-any-time": "C20",
}


def clause_property(verdict, cfg):
    base = verdict.split("@")[0]
    if base == "push-refused":
        return "C10" if cfg["limit"] != -1 else "C08"
    if cfg.get("static") and base in ("nearest", "served", "range"):
        return "C20"
    return CLAUSE.get(base)


MC_TMPL = """SPECIFICATION Spec
CONSTANTS MaxLen = {maxlen}
 MaxPub = {maxpub}
 Gaps = {{{gaps}}}
 CfgSet = "{cfgset}"
 Variant = "{variant}"
{extra}
CHECK_DEADLOCK FALSE
"""
INVS = ["InvServe", "InvBound", "InvAccounting", "InvGetTotal", "InvAbsInd"]
ENGINE = Engine("OutBuf", "OutBuf_Trace", "outbuf_run", MC_TMPL, INVS, clause_property, "outbuf-trace")


def P(cfgset, maxlen, maxpub, gaps):
    return dict(cfgset=cfgset, maxlen=maxlen, maxpub=maxpub, gaps=", ".join(map(str, gaps)))


PLAN = {
    "C09": dict(
        mc={"quick": [P("two", 9, 5, (2, 3)), P("three", 7, 4, (2, 3))],
            "thorough": [P("two", 10, 5, (1, 2, 3)), P("three", 9, 5, (2, 3)), P("four", 8, 4, (2, 3)),
                         P("one", 11, 6, (1, 2, 3))]},
        gen={"quick": [(P("two", 5, 3, (2, 3)), None, 6000), (P("three", 12, 6, (1, 2, 3, 4)), 1500, 3000)],
             "thorough": [(P("two", 5, 3, (2, 3)), None, None), (P("one", 6, 4, (1, 2)), None, None),
                          (P("three", 14, 7, (1, 2, 3, 4)), 10000, None), (P("four", 16, 8, (1, 2, 3, 4)), 10000, None)]},
        neg=[(P("two", 7, 4, (2, 3)), "evict-head", ["InvServe"]), (P("two", 7, 4, (2, 3)), "no-evict", ["InvBound"])],
        # "every pull returns exactly what an output with unlimited history would return", also when
        # the retained entry lives in a file
        also=("spill-transparent", "served")),
    "C10": dict(
        mc={"quick": [P("one", 9, 5, (2, 3)), P("masked", 7, 4, (2, 3))],
            "thorough": [P("one", 12, 7, (1, 2, 3)), P("two", 10, 5, (2, 3)), P("masked", 9, 5, (2, 3)), P("three", 9, 5, (2, 3))]},
        gen={"quick": [(P("one", 6, 4, (2,)), None, 2500), (P("masked", 5, 3, (2, 3)), None, 2500),
                       (P("two", 12, 6, (1, 2, 3)), 800, 1500)],
             "thorough": [(P("one", 6, 4, (2, 3)), None, None), (P("masked", 5, 3, (2, 3)), None, None),
                          (P("two", 5, 3, (2, 3)), None, None), (P("three", 14, 7, (1, 2, 3)), 20000, None)]}),
    "C20": dict(
        mc={"quick": [P("static", 7, 3, (2,))], "thorough": [P("static", 9, 4, (2,))]},
        gen={"quick": [(P("static", 4, 3, (2,)), None, 5000)], "thorough": [(P("static", 5, 3, (2,)), None, 120000)]}),
    "C08": dict(
        mc={"quick": [P("one", 9, 5, (2, 3)), P("two", 8, 4, (2, 3, 4))],
            "thorough": [P("one", 12, 7, (1, 2, 3, 4)), P("two", 10, 5, (2, 3, 4))]},
        gen={"quick": [(P("one", 6, 4, (2, 3)), None, 4000), (P("two", 12, 6, (1, 2, 3, 4)), 1000, 2000)],
             "thorough": [(P("one", 6, 4, (2, 3)), None, None), (P("two", 5, 3, (2, 3, 4)), None, None),
                          (P("three", 14, 7, (1, 2, 3, 4)), 20000, None)]}),
}


def run_engine(pid, tier, ev, violations, machinery):
    ENGINE.run(pid, tier, PLAN[pid], ev, violations, machinery)


def apalache_inductive(ev, violations, machinery, pid):
    """Unbounded-time argument (thorough tier): the invariant InvAbsInd that TLC checks on the concrete
    model is inductive on the set-based abstraction spec/apalache/OutBufInd.tla for arbitrary integer
    times (Apalache), and implies that nothing an end point may still request was dropped."""
    import os
    import shutil
    import subprocess
    import tempfile
    from .common import SPEC
    from .evidence import save_replay
    # (init, invariant, length, next, expected outcome)
    steps = [("Init", "IndInv", 0, "Next", True), ("IndInit", "IndInv", 1, "Next", True), ("IndInit", "Needed", 0, "Next", True),
             # second half of C09 (bounded retention): IndInv2 = IndInv /\ BoundInv is inductive and implies Bound;
             # a pull that never evicts (negative control) must break the induction step
             ("Init", "IndInv2", 0, "Next", True), ("IndInit2", "IndInv2", 1, "Next", True),
             ("IndInit2", "Bound", 0, "Next", True), ("IndInit2", "IndInv2", 1, "NextLazy", False)]
    out = tempfile.mkdtemp(prefix="fv-apa-")
    try:
        for init, inv, length, nxt, expect_ok in steps:
            try:
                p = subprocess.run(["apalache-mc", "check", f"--init={init}", f"--inv={inv}", f"--length={length}",
                                    f"--next={nxt}", f"--out-dir={out}", "OutBufInd.tla"], cwd=os.path.join(SPEC, "apalache"),
                                   stdout=subprocess.PIPE, stderr=subprocess.STDOUT, text=True, timeout=1800, check=False)
            except (OSError, subprocess.TimeoutExpired) as e:
                machinery.append(f"apalache {init}/{inv}: {e}")
                continue
            ok = "The outcome is: NoError" in p.stdout
            ev.cov["runs"].append({"kind": "apalache-inductive-step", "module": "apalache/OutBufInd", "init": init,
                                   "inv": inv, "length": length, "next": nxt, "ok": ok, "expected_ok": expect_ok})
            if not expect_ok:
                if "The outcome is: Error" not in p.stdout:
                    machinery.append(f"apalache negative control {nxt}/{inv} was not refuted")
                continue
            if "The outcome is: Error" in p.stdout:
                path = save_replay(pid, {"kind": "apalache-counterexample", "init": init, "inv": inv, "output": p.stdout[-4000:]})
                violations.append((pid, f"design-level: {inv} not inductive from {init} (Apalache)", path))
            elif not ok:
                machinery.append(f"apalache {init}/{inv} gave no verdict: {p.stdout[-300:]}")
    finally:
        shutil.rmtree(out, ignore_errors=True)


def check(pid, tier):
    ev = Evidence(pid, tier)
    out_lines, violations, machinery = [], [], []
    run_engine(pid, tier, ev, violations, machinery)
    if pid == "C09" and tier == "thorough":
        apalache_inductive(ev, violations, machinery, pid)
    return finish(pid, ev, out_lines, violations, machinery)


def replay(pid, path):
    return ENGINE.replay(pid, path)
