"""Checks decided with the output-history specification (OutBuf.tla / OutBuf_Trace.tla):
C09 (history), C10 (spilling, output side), C20 (static slots), C08 (nearest / range)."""
import json
import multiprocessing as mp
import random
import re
import shutil
import tempfile

from . import tlc
from .common import jdump, seed
from .evidence import Evidence, save_replay
from .check_sched import finish

CLAUSE = {
    "retained": "C09", "as-unlimited": "C09",
    "nearest": "C08", "range": "C08", "served": "C08",
    "spill-threshold": "C10", "files-accounting": "C10", "files-in-location": "C10",
    "spill-transparent": "C10", "no-files-after-finalize": "C10", "finalize-raised": "C10",
    "finalize-clears": "C10", "push-refused": None,
    "static-once": "C20", "static-any-time": "C20",
}


def clause_property(verdict, cfg):
    base = verdict.split("@")[0]
    if base == "push-refused":
        return "C10" if cfg["limit"] != -1 else "C08"
    if cfg.get("static") and base in ("nearest", "served", "range"):
        return "C20"
    return CLAUSE.get(base)


MC_TMPL = """SPECIFICATION Spec
CONSTANTS MaxLen = {maxlen}
 MaxPub = {maxpub}
 Gaps = {{{gaps}}}
 CfgSet = "{cfgset}"
 Variant = "{variant}"
{extra}
CHECK_DEADLOCK FALSE
"""
INVS = ["InvServe", "InvBound", "InvAccounting", "InvGetTotal"]


def mc(cfgset, maxlen, maxpub, gaps, variant="ok", invs=INVS, timeout=1800):
    extra = "VIEW view\n" + "\n".join(f"INVARIANT {i}" for i in invs)
    return tlc.model_check("OutBuf", MC_TMPL.format(maxlen=maxlen, maxpub=maxpub, gaps=", ".join(map(str, gaps)),
                                                     cfgset=cfgset, variant=variant, extra=extra), timeout=timeout)


def gen_scripts(cfgset, maxlen, maxpub, gaps, simulate=None, timeout=900):
    text = MC_TMPL.format(maxlen=maxlen, maxpub=maxpub, gaps=", ".join(map(str, gaps)), cfgset=cfgset,
                          variant="ok", extra="CONSTRAINT Emit")
    kw = {}
    if simulate:
        kw = dict(simulate=f"num={simulate}", depth=maxlen + 2, seed=seed() + 11)
    r = tlc.model_check("OutBuf", text, workers=1, timeout=timeout, **kw)
    scripts, seen = [], set()
    for m in re.finditer(r'<<"SCRIPT", "((?:[^"\\]|\\.)*)">>', r.out):
        s = m.group(1).encode().decode("unicode_escape")
        if s not in seen:
            seen.add(s)
            scripts.append(json.loads(s))
    return scripts, r


def _run_one(script):
    from . import outbuf_run
    d, w = tempfile.mkdtemp(prefix="fv-mem-"), tempfile.mkdtemp(prefix="fv-cwd-")
    try:
        return outbuf_run.run(script, d, w)
    except Exception as e:  # pylint: disable=broad-except
        return {"harness_error": f"{type(e).__name__}: {e}", "cfg": script["cfg"]}
    finally:
        shutil.rmtree(d, ignore_errors=True)
        shutil.rmtree(w, ignore_errors=True)


# per property: [(cfgset, maxlen, maxpub, gaps)] for MC and for script generation
PLAN = {
    "C09": dict(
        mc={"quick": [("two", 9, 5, (2, 3)), ("three", 7, 4, (2, 3))],
            "thorough": [("two", 11, 6, (1, 2, 3)), ("three", 9, 5, (2, 3)), ("four", 8, 4, (2, 3)), ("one", 12, 7, (1, 2, 3, 4))]},
        gen={"quick": [("two", 5, 3, (2, 3), None, 6000), ("three", 12, 6, (1, 2, 3, 4), 1500, 3000)],
             "thorough": [("two", 5, 3, (2, 3), None, None), ("one", 6, 4, (1, 2), None, None),
                          ("three", 14, 7, (1, 2, 3, 4), 20000, None), ("four", 16, 8, (1, 2, 3, 4), 20000, None)]},
        neg=[("two", 7, 4, (2, 3), "evict-head", ["InvServe"]), ("two", 7, 4, (2, 3), "no-evict", ["InvBound"])]),
    "C10": dict(
        mc={"quick": [("one", 9, 5, (2, 3)), ("two", 8, 4, (2, 3)), ("masked", 7, 4, (2, 3))],
            "thorough": [("one", 12, 7, (1, 2, 3)), ("two", 10, 5, (2, 3)), ("masked", 9, 5, (2, 3)), ("three", 9, 5, (2, 3))]},
        gen={"quick": [("one", 6, 4, (2,), None, 4000), ("masked", 5, 3, (2, 3), None, 5000), ("two", 12, 6, (1, 2, 3), 1200, 2500)],
             "thorough": [("one", 6, 4, (2, 3), None, None), ("masked", 5, 3, (2, 3), None, None),
                          ("two", 5, 3, (2, 3), None, None), ("three", 14, 7, (1, 2, 3), 20000, None)]},
        neg=[]),
    "C20": dict(
        mc={"quick": [("static", 7, 3, (2,))], "thorough": [("static", 9, 4, (2,))]},
        gen={"quick": [("static", 4, 3, (2,), None, 6000)], "thorough": [("static", 5, 3, (2,), None, 120000)]},
        neg=[]),
    "C08": dict(
        mc={"quick": [("one", 9, 5, (2, 3)), ("two", 8, 4, (2, 3, 4))],
            "thorough": [("one", 12, 7, (1, 2, 3, 4)), ("two", 10, 5, (2, 3, 4))]},
        gen={"quick": [("one", 6, 4, (2, 3), None, 6000), ("two", 12, 6, (1, 2, 3, 4), 1200, 2500)],
             "thorough": [("one", 6, 4, (2, 3), None, None), ("two", 5, 3, (2, 3, 4), None, None),
                          ("three", 14, 7, (1, 2, 3, 4), 20000, None)]},
        neg=[]),
}


def run_engine(pid, tier, ev, violations, machinery):
    plan = PLAN[pid]
    rng = random.Random(seed())
    for cfgset, maxlen, maxpub, gaps in plan["mc"][tier]:
        r = mc(cfgset, maxlen, maxpub, gaps)
        ev.add_mc(f"OutBuf/{cfgset}/len{maxlen}/pub{maxpub}", r,
                  {"CfgSet": cfgset, "MaxLen": maxlen, "MaxPub": maxpub, "Gaps": list(gaps), "invariants": INVS})
        if not r.ok:
            path = save_replay(pid, {"kind": "tlc-counterexample", "violated": r.violated, "output": r.out[-6000:]})
            violations.append((pid, f"design-level: {r.violated} violated in OutBuf.tla", path))
    for cfgset, maxlen, maxpub, gaps, variant, expect in plan["neg"]:
        rn = mc(cfgset, maxlen, maxpub, gaps, variant=variant)
        ev.cov["runs"].append({"kind": "negative-control", "variant": variant, "violated": rn.violated, **rn.summary()})
        if rn.ok or not set(rn.violated) & set(expect):
            machinery.append(f"negative control {variant} produced no counterexample for {expect}")
    scripts = []
    for cfgset, maxlen, maxpub, gaps, sim, cap in plan["gen"][tier]:
        got, _ = gen_scripts(cfgset, maxlen, maxpub, gaps, simulate=sim)
        if not got:
            machinery.append(f"no scripts generated for {cfgset}")
        if cap and len(got) > cap:
            got = rng.sample(got, cap)
            ev.cov["exhaustive"] = False
        if sim:
            ev.cov["exhaustive"] = False
        scripts += got
    with mp.Pool(16) as pool:
        traces = pool.map(_run_one, scripts, chunksize=50)
    herr = [t for t in traces if "harness_error" in t]
    if herr:
        machinery.append(f"{len(herr)} harness errors, first: {herr[0]['harness_error']}")
        traces = [t for t in traces if "harness_error" not in t]
    acc, tot, bad, gen, _ = tlc.validate("OutBuf_Trace", traces)
    ev.add_traces("OutBuf_Trace/" + "+".join(g[0] for g in plan["gen"][tier]), acc, tot, gen)
    nontrivial = set()
    for t in traces:
        if any(e["op"] == "get" and e["res"] == "ok" for e in t["ev"]) and len(t["ev"]) >= 3:
            nontrivial.add(jdump([t["cfg"], [(e["op"], e["k"], e["t"]) for e in t["ev"]]]))
    ev.cov["distinct_nontrivial"] += len(nontrivial)
    ev.cov["rule"] = ("operation scripts generated by TLC from OutBuf.tla (every behaviour up to MaxLen, plus "
                      "-simulate behaviours), executed on a real Output with real Inputs/adapters; non-trivial = "
                      "distinct script with at least 3 operations and one served pull")
    for t in traces[:2]:
        ev.sample(t)
    other = {}
    for k, verdict in sorted(bad.items()):
        t = traces[k]
        p = clause_property(verdict, t["cfg"])
        if p != pid:
            other[p] = other.get(p, 0) + 1
            continue
        path = save_replay(pid, {"kind": "outbuf-trace", "verdict": verdict, "trace": t}) if len(violations) < 10 else "(not saved)"
        violations.append((pid, f"trace rejected: {verdict} cfg={jdump(t['cfg'])}", path))
    ev.cov.setdefault("other_property_rejections", {}).update(other)


def check(pid, tier):
    ev = Evidence(pid, tier)
    out_lines, violations, machinery = [], [], []
    run_engine(pid, tier, ev, violations, machinery)
    return finish(pid, ev, out_lines, violations, machinery)


def replay(pid, path):
    with open(path) as f:
        rp = json.load(f)
    if rp.get("kind") != "outbuf-trace":
        print(rp.get("output", "")[-3000:])
        return 0
    script = {"cfg": rp["trace"]["cfg"], "ops": [{k: e[k] for k in ("op", "k", "t", "id")} for e in rp["trace"]["ev"]]}
    t = _run_one(script)
    acc, tot, bad, _, _ = tlc.validate("OutBuf_Trace", [t])
    if bad:
        print(f"VIOLATION property={clause_property(bad[0], t['cfg'])} replay={path}  # {bad[0]}")
        return 1
    print("replayed trace accepted")
    return 0
